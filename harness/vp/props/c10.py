"""C10 - Sampling honours the declared support and prior of every hyperparameter.

Tie
 (a) translator fact: convert_to_skopt_dim is CALLED on representatives of every ConfigSpace hyperparameter class x every
     surrogate name accepted by CBO; what it does (dimension class, transform, which field each bound / the log flag / the
     name / the categories come from) is written as a behaviour table into Generated/Facts_C10.v and consumed by the
     theorems C10_convert_table_* (a dropped log flag or a swapped bound in the source breaks that proof obligation);
 (b) conversion stream: generated declaration lists go through HpProblem.add_hyperparameter and convert_to_skopt_space; the
     fields read from Space.dimensions are judged against the DECLARATIONS by the extracted Coq oracle ok_conv
     (names, order = problem.hyperparameter_names, bounds, log flag, choices) and compared with the model (check, convert);
 (c) sampling streams: fixed-seed draws from Space.rvs (flat and ConfigSpace paths), the initial phase of Optimizer.ask
     (through CBO.ask; label / one-hot / normalize families) and RandomSearch.ask; per dimension the multiset of draws is
     judged by the extracted oracle ok_support (inside the inclusive bounds and of the declared kind, every category / every
     integer of a small range occurs, both ends approached);
 (d) the DISTRIBUTION clause is a statistical TEST (level `other`, not a theorem): uniform pmfs over small supports are
     tested by an exact chi-square computed and decided by the extracted checker ok_chi2_uniform (Laurent-Massart
     threshold, p < 1e-9); all other laws (real uniform, log-uniform, wide integer ranges) by scipy KS / chi-square in
     Python with the threshold p < 1e-9 - computed in Python, said here.
"""
import ast
import math
import os
from fractions import Fraction

from ..driver import model
from ..runner import Stream
from .. import srcfacts

PROPERTY = "C10"
LEVEL = "proof"
FACTS = ["convert_table"]
COQ_DIRS = ("Common",)
TRUSTED = [
    "ConfigSpace: validation of hyperparameters, order of the container (sorted by name since 1.0 - taken from problem.hyperparameter_names), "
    "its samplers (sample_configuration) on the ConfigSpace path and in RandomSearch; its private rounding convention for log-uniform integers",
    "scipy.stats generators (randint, uniform, rv_discrete) and numpy RandomState: the model's quantile argument (k, u) is taken as uniformly distributed",
    "libm log10 / pow (oracles lg, pw of the log-uniform theorems: monotone, pw (lg x) = x at the two bounds)",
    "DISTRIBUTION clause = statistical test (level other): exact chi-square decided by the extracted checker for uniform pmfs on small supports "
    "(threshold df + 2 sqrt(21 df) + 42, Laurent-Massart, p < 1e-9); KS / binned chi-square computed with scipy in Python for real and log-uniform "
    "laws and wide integer ranges (p < 1e-9); reference law for log-uniform integers on the flat path = round(log-uniform real on [lo, hi]) as the "
    "code does; on ConfigSpace paths only a band test against the continuous log-uniform cdf (ConfigSpace's convention is its own)",
    "family of a surrogate name (label vs one-hot) as used by the model side of the correspondence: RF, ET, GBRT, HGBRT, MF, BT -> label; "
    "the generated table records the real assignment",
]
ASSUMPTIONS = [
    "declarations: python int / float / str / bool / None atoms, |int| < 2^53, floats of ordinary magnitude (1e-6 .. 1e6); numpy scalars in declarations are not generated",
    "Optimizer.ask draws are observed with filter_duplicated off, or with a real dimension in the space (de-duplication of a purely discrete design changes its law by design - C08)",
    "initial_point_generator='random' (the default); quasi-random designs are outside this property",
    "ask sequences with de-duplication on (stream ask_sequence): the law of the j-th single ask is the law of Space.rvs restricted to the points not handed out yet "
    "(theorem C10_filter_keeps_every_fresh_candidate); the shift of a marginal frequency this can cause is bounded by (j-1) sum p^2 / (1 - (j-1) pmax)^2, "
    "estimated from a reference sample of Space.rvs; spaces with (k-1) pmax > 0.6 are not judged",
]
RULE = ("conversion: random lists of 1-7 declarations (int / float / mixed tuples with and without prior, categorical / ordinal lists, constants, ConfigSpace "
        "objects, malformed ones) x every surrogate name; names chosen so that sorted order differs from declaration order. sampling: valid declaration lists "
        "x path x surrogate family x seed, 4000+ draws per dimension. non-trivial = at least one accepted declaration (conversion) / at least one dimension "
        "with a support or distribution verdict (sampling)")

F_CHECK, F_CONVDECL, F_OKCONV, F_OKSUPPORT, F_SPEC, F_CHI2, F_CONVSPACE, F_VALUES, F_QNORM, F_QCATNORM, F_INACTIVE, F_FILTERDUP = range(1001, 1013)
CONV_CLAUSE = {0: "conv_unknown", 1: "names", 2: "number_of_dimensions", 3: "name_or_order", 4: "dimension_kind", 5: "bounds", 6: "log_flag", 7: "categories",
               8: "declaration_not_accepted"}
SUPPORT_CLAUSE = {1: "support_outside_or_wrong_type", 2: "support_value_never_drawn", 3: "lower_end_not_reached", 4: "upper_end_not_reached", 5: "no_draws"}
RULE_BASED = {"RF", "ET", "GBRT", "HGBRT", "MF", "BT"}
TR_CODE = {"identity": 0, "label": 1, "onehot": 2, "normalize": 3}
P_THRESHOLD = 1e-9


# ------------------------------------------------------------------------------------------------------------------ translator fact
def _surrogates_from_source(repo):
    path = os.path.join(repo, "src", "deephyper", "hpo", "_cbo.py")
    tree = ast.parse(open(path).read())
    for node in ast.walk(tree):
        if isinstance(node, ast.Assign) and len(node.targets) == 1 and isinstance(node.targets[0], ast.Name) and node.targets[0].id == "surrogate_model_allowed":
            if isinstance(node.value, ast.List) and all(isinstance(e, ast.Constant) and isinstance(e.value, str) for e in node.value.elts):
                return [e.value for e in node.value.elts]
            return None
    return None


def _representatives():
    import ConfigSpace.hyperparameters as csh

    reps = {
        "UniformInteger": [csh.UniformIntegerHyperparameter("rep_a", lower=3, upper=17, log=False), csh.UniformIntegerHyperparameter("rep_b", lower=5, upper=23, log=True)],
        "UniformFloat": [csh.UniformFloatHyperparameter("rep_c", lower=0.25, upper=7.5, log=False), csh.UniformFloatHyperparameter("rep_d", lower=0.5, upper=12.25, log=True)],
        "Categorical": [csh.CategoricalHyperparameter("rep_e", choices=["p", "q", "r"]), csh.CategoricalHyperparameter("rep_f", choices=["z", 3, True, 2.5])],
        "OrdinalNumeric": [csh.OrdinalHyperparameter("rep_g", sequence=[1, 2.5, 4]), csh.OrdinalHyperparameter("rep_h", sequence=[9, 7])],
        "OrdinalOther": [csh.OrdinalHyperparameter("rep_i", sequence=["lo", "mid", "hi"]), csh.OrdinalHyperparameter("rep_j", sequence=["b", 1])],
        "Constant": [csh.Constant("rep_k", 5), csh.Constant("rep_l", "cst"), csh.Constant("rep_m", 2.5)],
        "Other": [csh.NormalFloatHyperparameter("rep_n", mu=0.0, sigma=1.0, lower=-3.0, upper=3.0), csh.NormalIntegerHyperparameter("rep_o", mu=0, sigma=3, lower=-9, upper=9),
                  csh.BetaFloatHyperparameter("rep_p", alpha=2.0, beta=3.0, lower=0.0, upper=1.0), csh.BetaIntegerHyperparameter("rep_q", alpha=2.0, beta=3.0, lower=0, upper=9)],
    }
    known = {"UniformIntegerHyperparameter", "UniformFloatHyperparameter", "CategoricalHyperparameter", "OrdinalHyperparameter", "Constant",
             "NormalFloatHyperparameter", "NormalIntegerHyperparameter", "BetaFloatHyperparameter", "BetaIntegerHyperparameter",
             # abstract bases / alias
             "Hyperparameter", "NumericalHyperparameter", "FloatHyperparameter", "IntegerHyperparameter", "UnParametrizedHyperparameter"}
    have = {n for n in dir(csh) if isinstance(getattr(csh, n), type) and issubclass(getattr(csh, n), csh.Hyperparameter)}
    return reps, sorted(have - known)


def _same(a, b):
    return type(a) is type(b) and a == b


def _row_of(dim, hp):
    """What convert_to_skopt_dim did with hp: list of strings."""
    cls = type(dim).__name__
    tr = str(getattr(dim, "transform_", "?"))
    name = "name" if dim.name == hp.name else ("none" if dim.name is None else "other")
    if cls in ("Integer", "Real"):
        lo = "lower" if _same(dim.low, hp.lower) else ("upper" if _same(dim.low, hp.upper) else "other")
        hi = "upper" if _same(dim.high, hp.upper) else ("lower" if _same(dim.high, hp.lower) else "other")
        return [cls, tr, lo, hi, "prior=" + str(dim.prior), name, "-"]
    if cls == "Categorical":
        src = list(getattr(hp, "choices", None) or getattr(hp, "sequence", None) or [hp.value])
        cats = "all" if len(src) == len(dim.categories) and all(_same(a, b) for a, b in zip(src, dim.categories)) and dim.prior is None else "other"
        return [cls, tr, "-", "-", "-", name, cats]
    return None


def facts(repo):
    from deephyper.hpo._problem import convert_to_skopt_dim

    surrogates = _surrogates_from_source(repo)
    if not surrogates:
        return srcfacts.fail_closed("surrogate_model_allowed is not a literal list of strings in hpo/_cbo.py"), {"error": "surrogate list"}
    reps, unknown = _representatives()
    if unknown:
        return srcfacts.fail_closed("ConfigSpace hyperparameter classes without a representative: %r" % unknown), {"error": "classes", "unknown": unknown}
    try:
        from sklearn.dummy import DummyRegressor

        extra = [("<default>", None), ("<regressor>", DummyRegressor())]
    except Exception:
        extra = [("<default>", None)]
    rows, echo = [], []
    for sname, sval in [(s, s) for s in surrogates] + extra:
        for cname, hps in reps.items():
            seen = []
            for hp in hps:
                try:
                    dim = convert_to_skopt_dim(hp, sval)
                    r = _row_of(dim, hp)
                    if r is None:
                        return srcfacts.fail_closed("unrecognised dimension class %s for %s / %s" % (type(dim).__name__, sname, cname)), {"error": "dimension class"}
                except TypeError:
                    r = ["TypeError"]
                # the log flag: generalise over the representatives (prior as a function of hp.log)
                if len(r) > 1 and r[4].startswith("prior="):
                    r = r[:4] + [(r[4][6:], bool(hp.log))] + r[5:]
                seen.append(r)
            pri = None
            if len(seen[0]) > 1 and isinstance(seen[0][4], tuple):
                m = {}
                for r in seen:
                    m.setdefault(r[4][1], set()).add(r[4][0])
                f, t = m.get(False, set()), m.get(True, set())
                if f == {"uniform"} and t == {"log-uniform"}:
                    pri = "log"
                elif f == {"uniform"} and t == {"uniform"}:
                    pri = "const-uniform"
                elif f == {"log-uniform"} and t == {"log-uniform"}:
                    pri = "const-log"
                elif f == {"log-uniform"} and t == {"uniform"}:
                    pri = "neg-log"
                else:
                    pri = "other"
                seen = [r[:4] + [pri] + r[5:] for r in seen]
            if any(r != seen[0] for r in seen):
                return srcfacts.fail_closed("representatives of %s disagree under %s: %r" % (cname, sname, seen)), {"error": "representatives disagree", "rows": seen}
            rows.append((sname, cname, seen[0]))
            echo.append([sname, cname] + seen[0])
    text = "Definition convert_table : list (string * string * list string) :=\n  " + srcfacts.coq_list(
        ["(%s, %s, %s)" % (srcfacts.coq_string(s), srcfacts.coq_string(c), srcfacts.coq_list([srcfacts.coq_string(x) for x in r])) for s, c, r in rows]).replace("; (", ";\n   (") + ".\n"
    text += "Definition surrogate_count : nat := %d.\n" % (len(surrogates) + len(extra))
    return text, {"convert_table": echo, "surrogates": surrogates}


# ------------------------------------------------------------------------------------------------------------------ encodings
class Tokens:
    """strings -> Z tokens; 0 / 1 are reserved for the two prior names"""

    def __init__(self):
        self.t = {"uniform": 0, "log-uniform": 1}

    def tok(self, s, create=True):
        if s not in self.t:
            if not create:
                return -1
            self.t[s] = len(self.t)
        return self.t[s]


def canon(v):
    """numpy scalars -> python scalars"""
    try:
        import numpy as np

        if isinstance(v, np.generic):
            return v.item()
    except ImportError:
        pass
    return v


def enc_q(x):
    n, d = Fraction(x).as_integer_ratio() if not isinstance(x, float) else x.as_integer_ratio()
    return [n, d]


def enc_atom(v, toks, create=True):
    v = canon(v)
    if isinstance(v, bool):
        return [3, v]
    if isinstance(v, int):
        return [0, v]
    if isinstance(v, float):
        if v != v or v in (float("inf"), float("-inf")):
            return [4]
        n, d = v.as_integer_ratio()
        return [1, n, d]
    if isinstance(v, str):
        return [2, toks.tok(v, create)]
    return [4]


def dec_atom(a, rev):
    k = a[0]
    if k == 0:
        return a[1]
    if k == 1:
        return a[1] / a[2]
    if k == 2:
        return rev.get(a[1], "?")
    if k == 3:
        return bool(a[1])
    return None


def build_obj(o):
    import ConfigSpace.hyperparameters as csh

    c, name = o["cls"], o["name"]
    if c == "int":
        return csh.UniformIntegerHyperparameter(name, lower=o["lo"], upper=o["hi"], log=o["log"])
    if c == "float":
        return csh.UniformFloatHyperparameter(name, lower=o["lo"], upper=o["hi"], log=o["log"])
    if c == "cat":
        return csh.CategoricalHyperparameter(name, choices=o["items"])
    if c == "ord":
        return csh.OrdinalHyperparameter(name, sequence=o["items"])
    if c == "const":
        return csh.Constant(name, o["value"])
    if c == "normal":
        return csh.NormalFloatHyperparameter(name, mu=0.0, sigma=1.0, lower=-3.0, upper=3.0)
    raise ValueError(c)


def build_value(d, name):
    k = d["k"]
    if k == "tuple":
        return tuple(d["v"])
    if k == "list":
        return list(d["v"])
    if k == "scalar":
        return d["v"]
    return build_obj(dict(d["o"], name=name))


def enc_hp_obj(o, toks):
    c = o["cls"]
    if c == "int":
        return [0, o["lo"], o["hi"], bool(o["log"])]
    if c == "float":
        return [1, enc_q(float(o["lo"])), enc_q(float(o["hi"])), bool(o["log"])]
    if c == "cat":
        return [2, [enc_atom(v, toks) for v in o["items"]]]
    if c == "ord":
        return [3, [enc_atom(v, toks) for v in o["items"]]]
    if c == "const":
        return [4, enc_atom(o["value"], toks)]
    return [5]


def enc_decl(d, toks):
    k = d["k"]
    if k == "tuple":
        return [0, [enc_atom(v, toks) for v in d["v"]]]
    if k == "list":
        return [1, [enc_atom(v, toks) for v in d["v"]]]
    if k == "scalar":
        return [2, enc_atom(d["v"], toks)]
    return [3, enc_hp_obj(d["o"], toks)]


def enc_real_hp(hp, toks):
    """A live ConfigSpace hyperparameter -> the model's hp encoding (what deephyper reads of it)."""
    import ConfigSpace.hyperparameters as csh

    if isinstance(hp, csh.UniformIntegerHyperparameter):
        return [0, int(hp.lower), int(hp.upper), bool(hp.log)]
    if isinstance(hp, csh.UniformFloatHyperparameter):
        return [1, enc_q(float(hp.lower)), enc_q(float(hp.upper)), bool(hp.log)]
    if isinstance(hp, csh.CategoricalHyperparameter):
        return [2, [enc_atom(v, toks) for v in hp.choices]]
    if isinstance(hp, csh.OrdinalHyperparameter):
        return [3, [enc_atom(v, toks) for v in hp.sequence]]
    if isinstance(hp, csh.Constant):
        return [4, enc_atom(hp.value, toks)]
    return [5]


def enc_dim(dim, names, toks):
    """Fields read from a skopt dimension -> the model's dim encoding; anything unexpected becomes something no declaration matches."""
    import deephyper.skopt.space as sks

    nm = [names.index(dim.name)] if dim.name in names else ([] if dim.name is None else [-1])
    tr = TR_CODE.get(getattr(dim, "transform_", None), 9)
    if isinstance(dim, sks.Integer) or isinstance(dim, sks.Real):
        if dim.prior not in ("uniform", "log-uniform"):
            return [nm, 2, [[4]], 9]
        lo, hi = canon(dim.low), canon(dim.high)
        if isinstance(dim, sks.Integer):
            if not (type(lo) is int and type(hi) is int):
                return [nm, 2, [[4]], 9]
            return [nm, 0, lo, hi, dim.prior == "log-uniform", tr]
        if not (type(lo) is float and type(hi) is float):
            return [nm, 2, [[4]], 9]
        return [nm, 1, enc_q(lo), enc_q(hi), dim.prior == "log-uniform", tr]
    if isinstance(dim, sks.Categorical):
        if dim.prior is not None:
            return [nm, 2, [[4]], 9]
        return [nm, 2, [enc_atom(v, toks, create=False) for v in dim.categories], tr]
    return [nm, 2, [[4]], 9]


def family_code(sur):
    return 0 if sur in RULE_BASED else 1


def spec_desc(s):
    if s[0] == 0:
        return "int_log" if s[3] else "int_uniform"
    if s[0] == 1:
        return "real_log" if s[3] else "real_uniform"
    return "cats%d" % min(len(s[1]), 9)


# ------------------------------------------------------------------------------------------------------------------ conversion stream
def declare(decls, toks, spoil=False):
    """HpProblem.add_hyperparameter for every declaration; returns (problem, accepted indices, errors, first correspondence
    disagreement or None).  A disagreement does not stop the run: the ORACLES are evaluated first (against the declarations),
    the disagreement is reported only when they find nothing."""
    from deephyper.hpo import HpProblem

    m = model()
    p = HpProblem()
    accepted, errors, bad = [], {}, None
    for i, (name, d) in enumerate(decls):
        try:
            val = build_value(d, name)
        except Exception as e:  # the generator asked for an object ConfigSpace refuses: not a declaration
            errors[i] = "build:" + type(e).__name__
            continue
        want = m.call(F_CHECK, enc_decl(d, toks))
        try:
            hp = p.add_hyperparameter(val, name)
        except Exception as e:
            errors[i] = type(e).__name__
            if want and bad is None:
                bad = dict(kind="corr", clause="check_rejected_but_model_accepts", detail=dict(decl=d, error=repr(e)[:200], model=want))
            continue
        accepted.append(i)
        if spoil and isinstance(val, list):  # the caller goes on using (and editing) the list it passed in
            val.reverse()
            val.append("spoiled")
        if not want:
            bad = bad or dict(kind="corr", clause="check_accepted_but_model_rejects", detail=dict(decl=d, hp=repr(hp)))
            continue
        got = enc_real_hp(hp, toks)
        if (_norm(want[0]) != _norm(got) or hp.name != name) and bad is None:
            bad = dict(kind="corr", clause="check_hyperparameter_fields", detail=dict(decl=d, hp=repr(hp), model=want[0], impl=got))
    return p, accepted, errors, bad


def _norm(x):
    if isinstance(x, bool):
        return int(x)
    if isinstance(x, (list, tuple)):
        return [_norm(y) for y in x]
    return x


def judge_conversion(p, decls, accepted, sur, toks, res, bad):
    """One call of convert_to_skopt_space judged against the declarations.  Returns a failure dict, or None."""
    from deephyper.hpo._problem import convert_to_skopt_space

    m = model()
    names = [decls[i][0] for i in accepted]
    order = list(p.hyperparameter_names)
    res["desc"].append("order=" + ("declaration" if order == names else "sorted" if order == sorted(names) else "other"))
    hps = [(names.index(n) if n in names else -1, enc_real_hp(p.space[n], toks)) for n in order]
    want = m.call(F_CONVSPACE, [family_code(sur), [[i, h] for i, h in hps]])
    try:
        sp = convert_to_skopt_space(p.space, surrogate_model=sur)
    except TypeError as e:
        if bad:
            return dict(res, ok=False, **bad)
        if want:
            return dict(res, ok=False, kind="corr", clause="convert_raises_but_model_converts", detail=repr(e)[:200])
        res["desc"].append("convert:TypeError")
        return None
    dims = [enc_dim(dm, names, toks) for dm in sp.dimensions]
    # ORACLE: the dimensions against the DECLARATIONS.  Accepted declarations the model has no reading for are a correspondence
    # matter; they are taken out (with their dimension) and everything else is still judged.
    readable = [j for j, i in enumerate(accepted) if m.call(F_SPEC, enc_decl(decls[i][1], toks))]
    keep = set(readable)
    enc_decls = [[j, enc_decl(decls[accepted[j]][1], toks)] for j in readable]
    order_tok = [names.index(n) if n in names else -1 for n in order]
    if len(dims) == len(order_tok):
        pairs = [(t, dm) for t, dm in zip(order_tok, dims) if t in keep or t == -1]
        o2, d2 = [t for t, _ in pairs], [dm for _, dm in pairs]
    else:
        o2, d2 = [t for t in order_tok if t in keep or t == -1], dims
    ok, clause, idx = m.call(F_OKCONV, [enc_decls, o2, d2])
    if not ok:
        cl = "conv:" + CONV_CLAUSE.get(clause, str(clause))
        return dict(res, ok=False, clause=cl, sig={"clause": cl},
                    detail=dict(order=order, position=idx, dims=[repr(d) for d in sp.dimensions], declared={n: decls[accepted[names.index(n)]][1] for n in order if n in names}))
    if bad:
        return dict(res, ok=False, **bad)
    if (sp.config_space is not None) != (len(p.space.conditions) > 0 or len(p.space.forbidden_clauses) > 0):
        return dict(res, ok=False, kind="corr", clause="config_space_path_flag", detail=None)
    if not want or _norm(want[0]) != _norm(dims):
        return dict(res, ok=False, kind="corr", clause="dims_model", detail=dict(model=want, impl=dims, dims=[repr(d) for d in sp.dimensions]))
    return None


def check_conversion(case):
    import ConfigSpace as cs

    decls, sur = [list(x) for x in case["decls"]], case["surrogate"]
    toks = Tokens()
    res = dict(ok=True, kind="oracle", clause="", nontrivial=False, sig={"surrogate": sur}, desc=["surrogate=%s" % sur, "ndecl=%d" % len(decls)])
    for _, d in decls:
        res["desc"].append("decl=" + (d["k"] if d["k"] != "obj" else "obj_" + d["o"]["cls"]))
    p, accepted, errors, bad = declare(decls, toks, spoil=bool(case.get("mutate")))
    res["desc"].append("accepted=%d" % len(accepted))
    for e in errors.values():
        res["desc"].append("rejected:" + e)
    if not accepted:
        return dict(res, ok=False, nontrivial=True, **bad) if bad else res
    res["nontrivial"] = True
    if case.get("entry"):
        res["desc"].append("entry=" + case["entry"])
    p = rebuild(p, case)
    # conditions are added AFTER the hyperparameters (ConfigSpace may then re-order its container)
    ncond, objs = 0, []
    for child, parent in case.get("conditions", []):
        try:
            hp_c, hp_p = p.space[child], p.space[parent]
            value = hp_p.choices[0] if hasattr(hp_p, "choices") else hp_p.sequence[0] if hasattr(hp_p, "sequence") else hp_p.lower if hasattr(hp_p, "lower") and isinstance(hp_p.lower, int) else None
            if value is None:
                continue
            objs.append(cs.EqualsCondition(hp_c, hp_p, value))
        except Exception:
            continue
    try:
        if objs and case.get("conditions_plural"):
            p.add_conditions(objs)
            ncond = len(objs)
        else:
            for c in objs:
                try:
                    p.add_condition(c)
                    ncond += 1
                except Exception:
                    pass
    except Exception:
        pass
    res["desc"].append("conditions=%d" % ncond)
    f = judge_conversion(p, decls, accepted, sur, toks, res, bad)
    if f:
        return f
    # the same problem object converted again: for another surrogate, and after one more hyperparameter has been declared
    for sur2 in case.get("again", []):
        f = judge_conversion(p, decls, accepted, sur2, toks, res, bad)
        if f:
            return dict(f, clause=f["clause"] + "@second_conversion", sig=dict(f.get("sig", {}), clause=f["clause"] + "@second_conversion"))
    if case.get("extra"):
        nm, d = case["extra"]
        if nm not in [x[0] for x in decls]:
            try:
                p.add_hyperparameter(build_value(d, nm), nm)
            except Exception:
                return res
            decls.append([nm, d])
            accepted.append(len(decls) - 1)
            f = judge_conversion(p, decls, accepted, sur, toks, res, bad)
            if f:
                return dict(f, clause=f["clause"] + "@after_adding", sig=dict(f.get("sig", {}), clause=f["clause"] + "@after_adding"))
    return res


# ------------------------------------------------------------------------------------------------------------------ sampling streams
def _noop_run(job):
    return 0.0


def chunk_sizes(case):
    """how the n draws are asked for: at once, or by MANY calls on the one object (sizes 1, 3, 1, 64, 500, ... - single
    draws take other branches than batches)"""
    n = case["n"]
    if not case.get("chunks"):
        return [n]
    if case["chunks"] == "ones":
        return [1] * n
    out, pat, i = [], [1, 3, 1, 64, 500, 2, 1, 250], 0
    while sum(out) < n:
        out.append(min(pat[i % len(pat)], n - sum(out)))
        i += 1
    return out


def _spoil(obj):
    """the caller edits what it was handed (after the harness has copied the values out)"""
    if isinstance(obj, dict):
        for k in list(obj):
            obj[k] = "spoiled"
    elif isinstance(obj, list):
        for i in range(len(obj)):
            if isinstance(obj[i], (list, dict)):
                _spoil(obj[i])
            else:
                obj[i] = "spoiled"


def draw(case, problem):
    """-> (list of rows as dicts name -> value, effective transforms or None)"""
    import copy
    import numpy as np
    from deephyper.hpo._problem import convert_to_skopt_space

    path, sur, seed, n = case["path"], case["surrogate"], case["seed"], case["n"]
    sizes = chunk_sizes(case)
    spoil = bool(case.get("mutate_returned"))
    names = list(problem.hyperparameter_names)
    if path in ("space_rvs", "space_rvs_cs", "dim_rvs"):
        sp = convert_to_skopt_space(problem.space, surrogate_model=sur)
        if path != "dim_rvs" and (sp.config_space is not None) != (path == "space_rvs_cs"):
            raise RuntimeError("path %s but config_space=%r" % (path, sp.config_space is not None))
        if case.get("normalize"):
            sp.set_transformer("normalize")
        if sp.config_space is not None:
            sp.config_space.seed(seed)
        if case.get("pickle"):
            sp = copy.deepcopy(sp)  # (pickle refuses a Space with an integer-valued ordinal: Identity(type_func=lambda ...))
        rs = np.random.RandomState(seed) if (case.get("rs_object") or len(sizes) > 1 or path == "dim_rvs") else seed
        kw = dict(n_jobs=case["n_jobs"]) if case.get("n_jobs") else {}
        if path == "dim_rvs":  # the per-dimension entry point, every arity: n_samples None / 1 / k
            cols = []
            for dm in sp.dimensions:
                col = []
                for ci, c in enumerate(sizes):
                    arg = None if (c == 1 and ci % 4 == 0 and type(dm).__name__ == "Categorical") else c
                    r = dm.rvs(n_samples=arg, random_state=rs)
                    vals = list(r) if isinstance(r, (list, tuple, np.ndarray)) else [r]
                    col.extend(canon(v) for v in vals)
                    if spoil and isinstance(r, list):
                        _spoil(r)
                cols.append(col)
            if len({len(c) for c in cols}) != 1:
                raise RuntimeError("dimension rvs returned %r values for sizes summing to %d" % ([len(c) for c in cols], n))
            return [dict(zip(names, x)) for x in zip(*cols)], [d.transform_ for d in sp.dimensions]
        X = []
        for ci, c in enumerate(sizes):
            part = sp.rvs(n_samples=c, random_state=rs, **kw)
            X.extend([canon(v) for v in x] for x in part)
            if spoil:
                _spoil(part)
            if case.get("pickle") and ci == 2:
                sp = copy.deepcopy(sp)
        return [dict(zip(names, x)) for x in X], [d.transform_ for d in sp.dimensions]
    if path == "cbo_ask":
        import tempfile
        from deephyper.hpo import CBO

        with tempfile.TemporaryDirectory(prefix="vp_c10_") as d:
            npts = 8 if case.get("one_by_one") else max(sizes)
            kw = dict(n_jobs=case["n_jobs"]) if case.get("n_jobs") else {}
            s = CBO(copy.deepcopy(problem) if case.get("pickle") else problem, _noop_run, surrogate_model=sur, random_state=seed, n_points=npts, n_initial_points=n,
                    filter_duplicated=bool(case.get("filter_duplicated", False)), log_dir=d, verbose=0, **kw)
            s._setup_optimizer()
            X = []
            for c in ([1] * n if case.get("one_by_one") else sizes):
                part = s.ask(c)
                X.extend({k: canon(v) for k, v in x.items()} for x in part)
                if spoil:
                    _spoil(part)
            trs = [dm.transform_ for dm in s._opt.space.dimensions]
        return X, trs
    if path == "random_search":
        import tempfile
        from deephyper.hpo import RandomSearch

        with tempfile.TemporaryDirectory(prefix="vp_c10_") as d:
            s = RandomSearch(copy.deepcopy(problem) if case.get("pickle") else problem, _noop_run, random_state=seed, log_dir=d, verbose=0)
            X = []
            for c in ([1] * n if case.get("one_by_one") else sizes):
                part = s.ask(c)
                X.extend({k: canon(v) for k, v in x.items()} for x in part)
                if spoil:
                    _spoil(part)
        return X, None
    raise ValueError(path)


def rebuild(problem, case):
    """the same problem through another entry point: HpProblem(config_space=...) or add_hyperparameters([...])"""
    from deephyper.hpo import HpProblem

    entry = case.get("entry", "add")
    if entry == "config_space":
        return HpProblem(config_space=problem.space)
    if entry == "add_list":
        q = HpProblem()
        q.add_hyperparameters([problem.space[n] for n in problem.hyperparameter_names][::-1])
        return q
    return problem


def add_structure(problem, case):
    """conditions / forbidden clauses of the ConfigSpace path; returns {child: (parent, value)}"""
    import ConfigSpace as cs

    cond, objs = {}, []
    for child, parent, value in case.get("conditions", []):
        objs.append(cs.EqualsCondition(problem.space[child], problem.space[parent], value))
        cond[child] = (parent, value)
    if objs and case.get("conditions_plural"):
        problem.add_conditions(objs)
    else:
        for c in objs:
            problem.add_condition(c)
    for name, value in case.get("forbidden", []):
        problem.add_forbidden_clause(cs.ForbiddenEqualsClause(problem.space[name], value))
    return cond


def log_int_pmf(lo, hi):
    """round(clip(10 ** U)), U uniform on [log10 lo, log10 hi]  (what Integer does with a log-uniform prior)"""
    L = math.log
    tot = L(hi) - L(lo)
    return [(L(min(k + 0.5, hi)) - L(max(k - 0.5, lo))) / tot for k in range(lo, hi + 1)]


def merged_chi2(obs, exp, min_exp=8.0):
    """chi-square with adjacent cells merged until every expected count is >= min_exp; returns (stat, df)"""
    cells, o_acc, e_acc = [], 0.0, 0.0
    for o, e in zip(obs, exp):
        o_acc += o
        e_acc += e
        if e_acc >= min_exp:
            cells.append((o_acc, e_acc))
            o_acc, e_acc = 0.0, 0.0
    if e_acc > 0 or o_acc > 0:
        if cells:
            cells[-1] = (cells[-1][0] + o_acc, cells[-1][1] + e_acc)
        else:
            cells.append((o_acc, e_acc))
    stat = sum((o - e) ** 2 / e for o, e in cells if e > 0)
    return stat, len(cells) - 1


def dist_test(spec, vals, flat):
    """The statistical clause for laws the extracted checker does not decide (computed in PYTHON with scipy).
    Returns (name, p-value or None, info)."""
    from scipy import stats

    n = len(vals)
    k = spec[0]
    if k == 0:
        lo, hi, log = spec[1], spec[2], bool(spec[3])
        if not log:
            # wide uniform integer range: 32 equal-probability-ish bins
            w = hi - lo + 1
            nb = min(32, w)
            edges = [lo + (w * j) // nb for j in range(nb + 1)]
            obs = [0] * nb
            for v in vals:
                j = min(nb - 1, ((v - lo) * nb) // w)
                while v < edges[j]:
                    j -= 1
                while v >= edges[j + 1]:
                    j += 1
                obs[j] += 1
            exp = [n * (edges[j + 1] - edges[j]) / w for j in range(nb)]
            stat, df = merged_chi2(obs, exp)
            return "dist_int_uniform_binned", (stats.chi2.sf(stat, df) if df > 0 else None), dict(stat=stat, df=df)
        if flat and hi - lo <= 5000:
            pmf = log_int_pmf(lo, hi)
            obs = [0] * (hi - lo + 1)
            for v in vals:
                obs[v - lo] += 1
            stat, df = merged_chi2(obs, [n * q for q in pmf])
            return "dist_int_log_rounded", (stats.chi2.sf(stat, df) if df > 0 else None), dict(stat=stat, df=df)
        # band test against the continuous log-uniform cdf: rounding conventions move a point by at most one integer
        F = lambda x: (math.log(min(max(x, lo), hi)) - math.log(lo)) / (math.log(hi) - math.log(lo))
        xs = sorted(vals)
        d = 0.0
        for i, x in enumerate(xs):
            lo_b, hi_b = F(x - 1), F(x + 1)
            d = max(d, (i + 1) / n - hi_b, lo_b - i / n)
        p = min(1.0, 2 * math.exp(-2 * n * d * d)) if d > 0 else 1.0  # DKW bound
        return "dist_int_log_band", p, dict(D=d)
    if k == 1:
        lo, hi, log = spec[1][0] / spec[1][1], spec[2][0] / spec[2][1], bool(spec[3])
        if not log:
            r = stats.kstest(vals, "uniform", args=(lo, hi - lo))
        else:
            r = stats.kstest([math.log(v) for v in vals], "uniform", args=(math.log(lo), math.log(hi) - math.log(lo)))
        return ("dist_real_log_ks" if log else "dist_real_uniform_ks"), float(r.pvalue), dict(D=float(r.statistic))
    return None, None, None


def check_sampling(case):
    decls = case["decls"]
    toks = Tokens()
    m = model()
    sig = {"path": case["path"]}
    res = dict(ok=True, kind="oracle", clause="", nontrivial=False, sig=dict(sig), desc=["path=" + case["path"], "surrogate=%s" % case["surrogate"]])
    p, accepted, errors, bad = declare(decls, toks, spoil=bool(case.get("mutate_returned")))
    if len(accepted) != len(decls):
        return dict(res, ok=False, **bad) if bad else dict(res, ok=False, kind="corr", clause="sampling_case_declaration_rejected", detail=errors)
    p = rebuild(p, case)
    cond = add_structure(p, case)
    for k in ("entry", "chunks", "mutate_returned", "pickle", "n_jobs", "normalize", "conditions_plural", "one_by_one"):
        if case.get(k):
            res["desc"].append("%s=%s" % (k, case[k]))
    if case.get("conditions"):
        res["desc"].append("conditions=%d" % len(case["conditions"]))
    if case.get("forbidden"):
        res["desc"].append("forbidden")
    specs = {}
    for name, d in decls:
        s = m.call(F_SPEC, enc_decl(d, toks))
        if not s:
            return dict(res, ok=False, kind="corr", clause="sampling_case_without_spec", detail=d)
        specs[name] = s[0]
    rows, trs = draw(case, p)
    names = list(p.hyperparameter_names)
    if trs is not None:
        for t in sorted(set(trs)):
            res["desc"].append("transform=" + str(t))
    if len(rows) != case["n"]:
        return dict(res, ok=False, clause="number_of_draws", detail=dict(want=case["n"], got=len(rows)))
    if any(set(r.keys()) != set(names) for r in rows[:50]) or (rows and list(rows[0].keys()) != names and case["path"] != "random_search"):
        return dict(res, ok=False, clause="draw_keys", detail=dict(names=names, first=list(rows[0].keys())))
    ucols = []
    for j, name in enumerate(names):
        spec = specs[name]
        col = [canon(r[name]) for r in rows]
        if name in cond:  # conditional child: judged on the rows where it is active; inactive rows carry the lower bound / first category
            def active(nm, r):  # a child is active when its parent is active and has the value
                while nm in cond:
                    par, val = cond[nm]
                    if not (canon(r[par]) == val and isinstance(canon(r[par]), bool) == isinstance(val, bool)):  # Python ==: 3.0 for a declared 3 on the ConfigSpace path
                        return False
                    nm = par
                return True

            act = [active(name, r) for r in rows]
            inactive = [v for v, a in zip(col, act) if not a]
            col = [v for v, a in zip(col, act) if a]
            if not col:
                res["desc"].append("no_active_rows")
                continue
            first = dec_atom(m.call(F_INACTIVE, spec)[0], {v: k for k, v in toks.t.items()})  # the model's inactive value
            if any(not _same(v, first) for v in inactive) and not bad:  # reported only when the oracles find nothing
                bad = dict(kind="corr", clause="inactive_value", detail=dict(name=name, want=first, got=[v for v in inactive if not _same(v, first)][:3]))
        tr = trs[j] if trs is not None else "configspace"
        dsig = dict(sig, dim=spec_desc(spec), transform=str(tr))
        if spec[0] == 2:
            dsig["mixed_types"] = len({a[0] for a in spec[1]}) > 1
        res["desc"].append("dim=%s/%s" % (spec_desc(spec), tr))
        draws = [enc_atom(v, toks, create=False) for v in col]
        code = m.call(F_OKSUPPORT, [spec, draws])
        if code != 0:
            cl = SUPPORT_CLAUSE.get(code, "support_%d" % code)
            from collections import Counter

            return dict(res, ok=False, nontrivial=True, clause=cl, sig=dict(dsig, clause=cl),
                        detail=dict(name=name, declared=dict(decls)[name], n=len(col), min=repr(min(col, key=_key)), max=repr(max(col, key=_key)),
                                    counts=sorted(((repr(k), c) for k, c in Counter(map(repr, col)).items()), key=lambda kv: kv[1])[:12]))
        res["nontrivial"] = True
        # ---- distribution clause: a TEST ----
        if spec[0] == 2 and len(spec[1]) == 1:
            continue
        if spec[0] == 1 and name not in cond:
            lo_f, hi_f = spec[1][0] / spec[1][1], spec[2][0] / spec[2][1]
            if (hi_f - lo_f) > 1e-3 * max(abs(lo_f), abs(hi_f)):
                # draws of a continuous law do not repeat - neither within one call nor from one call to the next on the same object
                nd = len(set(col))
                if nd < 0.99 * len(col):
                    return dict(res, ok=False, clause="repeated_draws", sig=dict(dsig, clause="repeated_draws"),
                                detail=dict(name=name, declared=dict(decls)[name], n=len(col), distinct=nd, calls=len(chunk_sizes(case)), decided_by="python (statistical test, level other)"))
                ucols.append((name, col))
        small, okchi, num, ntot, kk, counts = m.call(F_CHI2, [spec, draws])
        if small:
            res["desc"].append("dist=chi2_exact")
            if not okchi:
                return dict(res, ok=False, clause="dist_chi2_uniform", sig=dict(dsig, clause="dist_chi2_uniform"),
                            detail=dict(name=name, declared=dict(decls)[name], n=ntot, cells=kk, chi2=num / ntot, threshold=(kk - 1) + 2 * math.sqrt(21 * (kk - 1)) + 42,
                                        counts=counts, decided_by="extracted ok_chi2_uniform"))
            continue
        flat = case["path"] in ("space_rvs", "cbo_ask", "dim_rvs") and not case.get("conditions") and not case.get("forbidden")  # else ConfigSpace samples
        tname, pv, info = dist_test(spec, col, flat)
        if tname:
            res["desc"].append("dist=" + tname)
            if pv is not None and pv < P_THRESHOLD:
                return dict(res, ok=False, clause=tname, sig=dict(dsig, clause=tname),
                            detail=dict(name=name, declared=dict(decls)[name], n=len(col), p=pv, info=info, decided_by="python/scipy (statistical test, level other)"))
    # a random design: the dimensions are drawn independently of each other (rank correlation of pairs of real dimensions; TEST)
    if len(ucols) >= 2 and not case.get("conditions"):
        from scipy import stats

        for a in range(min(len(ucols), 4)):
            for b in range(a + 1, min(len(ucols), 4)):
                rho = float(stats.spearmanr(ucols[a][1], ucols[b][1]).statistic)
                if abs(rho) * math.sqrt(len(rows)) > 6.5:  # |rho| sqrt(n) ~ N(0,1): p < 1e-10
                    return dict(res, ok=False, clause="dimensions_correlated", sig=dict(sig, clause="dimensions_correlated"),
                                detail=dict(a=ucols[a][0], b=ucols[b][0], spearman=rho, n=len(rows), decided_by="python/scipy (statistical test, level other)"))
        res["desc"].append("dist=independence")
    # the problem is still what was declared: convert it once more AFTER all the sampling calls and judge the dimensions again
    from deephyper.hpo._problem import convert_to_skopt_space

    sp2 = convert_to_skopt_space(p.space, surrogate_model=case["surrogate"])
    dnames = [nm for nm, _ in decls]
    ok, clause, idx = m.call(F_OKCONV, [[[j, enc_decl(d, toks)] for j, (_, d) in enumerate(decls)], [dnames.index(x) if x in dnames else -1 for x in p.hyperparameter_names],
                                        [enc_dim(dm, dnames, toks) for dm in sp2.dimensions]])
    if not ok:
        cl = "conv_after_sampling:" + CONV_CLAUSE.get(clause, str(clause))
        return dict(res, ok=False, clause=cl, sig=dict(sig, clause=cl), detail=dict(order=list(p.hyperparameter_names), dims=[repr(d) for d in sp2.dimensions]))
    if bad:
        return dict(res, ok=False, **bad)
    return res


def _key(v):
    return (0, v) if isinstance(v, (int, float)) and not isinstance(v, bool) else (1, repr(v))


# ------------------------------------------------------------------------------------------------------------------ normalized quantile (replay of the _refuted witness)
def check_quantile(case):
    """Integer / Categorical with the 'normalize' transform: public inverse_transform at the quantile argument u = num/den
    against the model's q_int_normalized / q_cat_normalized (functional correspondence of the quantile map)."""
    import deephyper.skopt.space as sks

    m = model()
    num, den = case["u"]
    u = num / den
    res = dict(ok=True, kind="corr", clause="", nontrivial=True, sig={}, desc=["kind=" + case["kind"]])
    if case["kind"] == "int":
        lo, hi = case["lo"], case["hi"]
        d = sks.Integer(lo, hi, transform="normalize")
        got = int(d.inverse_transform([u])[0])
        want = m.call(F_QNORM, [lo, hi, [num, den]])[0]
        if got != want:
            return dict(res, ok=False, clause="q_int_normalized", detail=dict(lo=lo, hi=hi, u=[num, den], impl=got, model=want))
    else:
        toks = Tokens()
        cats = case["cats"]
        d = sks.Categorical(cats, transform="normalize")
        got = canon(d.inverse_transform([u])[0])
        # the model takes the categories in the label encoder's order (np.unique: sorted, for categories of one type) - an oracle
        want = m.call(F_QCATNORM, [[enc_atom(c, toks) for c in sorted(cats)], [num, den]])
        if not want or want[0] != enc_atom(got, toks, create=False):
            return dict(res, ok=False, clause="q_cat_normalized", detail=dict(cats=cats, u=[num, den], impl=repr(got), model=want))
    return res


def gen_quantile(count):
    def gen(rng, tier):
        for i in range(count):
            den = rng.choice([2, 4, 6, 8, 12, 64, 1000, 2 ** 20])
            num = rng.randint(0, den)
            if i % 2 == 0:
                lo = rng.choice([-7, -1, 0, 1, 5, 100])
                hi = lo + rng.choice([1, 2, 3, 4, 7, 10, 33])
                yield dict(kind="int", lo=lo, hi=hi, u=[num, den])
            else:
                k = rng.randint(2, 7)
                cats = ["c%d" % j for j in range(k)]
                rng.shuffle(cats)
                yield dict(kind="cat", cats=cats, u=[num, den])
    return gen


# ------------------------------------------------------------------------------------------------------------------ extreme quantile arguments
def make_stub(mode):
    """A RandomState whose uniform draws are all 0.0 (mode 'min') or all the largest float below 1.0 (mode 'max') and whose
    integer draws are the smallest / largest legal value: the two ends of the model's quantile arguments (u = 0, u -> 1,
    k = 0, k = hi - lo), fed through the public Dimension.rvs."""
    import numpy as np

    class Stub(np.random.RandomState):
        def __init__(self):
            super().__init__(0)
            self.calls = []

        def _u(self):
            return 0.0 if mode == "min" else float(np.nextafter(1.0, 0.0))

        def uniform(self, low=0.0, high=1.0, size=None):
            self.calls.append("uniform")
            v = low + (high - low) * self._u()
            return np.full(size, v) if size is not None else v

        def random_sample(self, size=None):
            self.calls.append("random_sample")
            return np.full(size, self._u()) if size is not None else self._u()

        random = random_sample
        rand = lambda self, *shape: self.random_sample(shape if shape else None)

        def randint(self, low, high=None, size=None, dtype=int):
            self.calls.append("randint")
            if high is None:
                low, high = 0, low
            v = low if mode == "min" else high - 1
            return np.full(size, v, dtype=dtype) if size is not None else v

    return Stub()


def check_extremes(case):
    """Deterministic version of 'both ends occur, nothing outside': the samplers at the extreme quantile arguments."""
    import numpy as np
    from deephyper.hpo._problem import convert_to_skopt_space

    decls = case["decls"]
    toks = Tokens()
    m = model()
    res = dict(ok=True, kind="oracle", clause="", nontrivial=True, sig={}, desc=["surrogate=%s" % case["surrogate"], "normalize=%s" % bool(case.get("normalize"))])
    p, accepted, errors, bad = declare(decls, toks)
    if len(accepted) != len(decls):
        return dict(res, ok=False, **bad) if bad else dict(res, ok=False, kind="corr", clause="sampling_case_declaration_rejected", detail=errors)
    sp = convert_to_skopt_space(p.space, surrogate_model=case["surrogate"])
    if case.get("normalize"):
        sp.set_transformer("normalize")
    by_name = dict(decls)
    later = None
    for name, dm in zip(p.hyperparameter_names, sp.dimensions):
        spec = m.call(F_SPEC, enc_decl(by_name[name], toks))[0]
        ends = {}
        for mode in ("min", "max"):
            st = make_stub(mode)
            r = dm.rvs(n_samples=case.get("k", 3), random_state=st)
            vals = [canon(v) for v in (list(r) if isinstance(r, (list, tuple, np.ndarray)) else [r])]
            if not st.calls:
                return dict(res, ok=False, kind="corr", clause="extreme_stub_not_used", detail=dict(name=name))
            if any(not _same(v, vals[0]) for v in vals):
                return dict(res, ok=False, kind="corr", clause="extreme_draws_differ", detail=dict(name=name, values=[repr(v) for v in vals]))
            ends[mode] = vals[0]
        res["desc"].append("dim=%s/%s" % (spec_desc(spec), dm.transform_))
        code = m.call(F_OKSUPPORT, [spec, [enc_atom(ends["min"], toks, create=False), enc_atom(ends["max"], toks, create=False)]])
        if code != 0:
            cl = "extreme:" + SUPPORT_CLAUSE.get(code, str(code))
            return dict(res, ok=False, clause=cl, sig=dict(clause=cl, dim=spec_desc(spec), transform=str(dm.transform_)),
                        detail=dict(name=name, declared=by_name[name], at_u0=repr(ends["min"]), at_u1=repr(ends["max"])))
        # correspondence with the model's quantile maps at the two ends: q(0) = lo exactly, integers reach hi exactly, first / last category
        if spec[0] == 0:
            want = (spec[1], spec[2])
        elif spec[0] == 1:
            want = (spec[1][0] / spec[1][1], None)
        else:
            rev = {v: k for k, v in toks.t.items()}
            want = (dec_atom(spec[1][0], rev), dec_atom(spec[1][-1], rev))
        if spec[0] == 1 and spec[3]:
            want = (None, None)  # 10 ** log10(lo) is lo up to rounding (oracle pw / lg): the band of the oracle is the statement
        if (want[0] is not None and not _same(ends["min"], want[0])) or (want[1] is not None and not _same(ends["max"], want[1])):
            later = later or dict(kind="corr", clause="extreme_quantile_value", detail=dict(name=name, declared=by_name[name], want=[repr(w) for w in want], got=[repr(ends["min"]), repr(ends["max"])]))
    if later or bad:
        return dict(res, ok=False, **(later or bad))
    return res


def gen_extremes(count):
    def gen(rng, tier):
        for i in range(count * (2 if tier == "search" else 1)):
            yield dict(decls=sampling_decls(rng, "all" if i % 4 == 0 else "some"), surrogate=["RF", "DUMMY", "GP", None][i % 4], normalize=i % 2 == 1, k=[3, 1, 50][i % 3])
    return gen


# ------------------------------------------------------------------------------------------------------------------ ask sequences (the ask INDEX is a dimension of the check)
def check_ask_sequence(case):
    """Many freshly seeded CBOs, each asked ONE configuration k times in its initial random phase (optionally told the result in
    between), de-duplication left at its default (on).  Support and distribution are judged PER ASK INDEX: the values handed out by
    the j-th ask of all searches.  Reference law of ask j = the law of Space.rvs (judged against the declarations by the other
    streams and here) restricted to the points not handed out yet; the shift this restriction can cause is bounded by
    (j-1) sum p^2 / (1 - (j-1) pmax)^2, computed from a large reference sample of Space.rvs.  A TEST (level other) except for the
    support clauses, which the extracted oracle decides."""
    import tempfile
    from collections import Counter
    from deephyper.hpo import CBO
    from deephyper.hpo._problem import convert_to_skopt_space

    decls, sur, k, nseeds = case["decls"], case["surrogate"], case["k"], case["nseeds"]
    toks = Tokens()
    m = model()
    res = dict(ok=True, kind="oracle", clause="", nontrivial=True, sig={}, desc=["surrogate=%s" % sur, "k=%d" % k, "tell=%s" % bool(case.get("tell")), "space=" + case.get("kind", "?")])
    p, accepted, errors, bad = declare(decls, toks)
    if len(accepted) != len(decls):
        return dict(res, ok=False, **bad) if bad else dict(res, ok=False, kind="corr", clause="sampling_case_declaration_rejected", detail=errors)
    cond = add_structure(p, case)
    names = list(p.hyperparameter_names)
    specs = {nm: m.call(F_SPEC, enc_decl(d, toks))[0] for nm, d in decls}
    rev = {v: kk for kk, v in toks.t.items()}

    def active(nm, r):
        while nm in cond:
            par, val = cond[nm]
            if not (canon(r[par]) == val and isinstance(canon(r[par]), bool) == isinstance(val, bool)):
                return False
            nm = par
        return True

    # reference: the space's own sampler, unfiltered
    sp = convert_to_skopt_space(p.space, surrogate_model=sur)
    if sp.config_space is not None:
        sp.config_space.seed(case["seed"])
    nref = case.get("nref", 20000)
    ref = [dict(zip(names, [canon(v) for v in x])) for x in sp.rvs(n_samples=nref, random_state=case["seed"])]
    pts = Counter(tuple(repr(r[nm]) for nm in names) for r in ref)
    sum_p2 = sum((c / nref) ** 2 for c in pts.values() if c > 1)
    pmax = max(pts.values()) / nref if max(pts.values()) > 1 else 0.0
    if (k - 1) * pmax > 0.6:
        return dict(res, nontrivial=False, desc=res["desc"] + ["space_too_small"])
    rows = [[] for _ in range(k)]
    with tempfile.TemporaryDirectory(prefix="vp_c10_") as d:
        for sd in range(nseeds):
            se = CBO(p, _noop_run, surrogate_model=sur, n_initial_points=2 * k + 5, n_points=case["n_points"], random_state=case["seed"] + 1 + sd, log_dir=d, verbose=0)
            if getattr(se, "_opt", None) is None:
                se._setup_optimizer()
            for j in range(k):
                x = se.ask(1)[0]
                rows[j].append({kk: canon(v) for kk, v in x.items()})
                if case.get("tell"):
                    se.tell([(x, 0.0)])

    def cells_of(nm, spec):
        """marginal cells of one dimension: the values themselves when few, else quartile cells of the reference sample"""
        col = [r[nm] for r in ref if active(nm, r)]
        vals = sorted(set(map(repr, col)))
        if len(vals) <= 8:
            return lambda v: repr(v), col
        srt = sorted(col)
        cuts = [srt[len(srt) * q // 4] for q in (1, 2, 3)]
        return lambda v: sum(v >= c for c in cuts), col

    for j in range(k):
        delta = (j * sum_p2) / (1 - j * pmax) ** 2
        for nm in names:
            spec = specs[nm]
            col = [r[nm] for r in rows[j] if active(nm, r)]
            if len(col) < 30:
                continue
            dsig = dict(ask=j + 1, dim=spec_desc(spec))
            code = m.call(F_OKSUPPORT, [spec, [enc_atom(v, toks, create=False) for v in col]])
            if code in (1, 2, 5):  # with a few hundred draws per ask index the end-band clauses (3, 4) are not applicable
                cl = SUPPORT_CLAUSE[code] + "@ask_index"
                return dict(res, ok=False, clause=cl, sig=dict(dsig, clause=cl),
                            detail=dict(name=nm, ask=j + 1, declared=dict(decls)[nm], n=len(col), counts=sorted(Counter(map(repr, col)).items(), key=lambda kv: -kv[1])[:10]))
            if spec[0] == 2 and len(spec[1]) == 1:
                continue
            cell, rcol = cells_of(nm, spec)
            fr, fj = Counter(map(cell, rcol)), Counter(map(cell, col))
            band = delta + 6.5 * math.sqrt(0.25 / len(col) + 0.25 / len(rcol))
            worst = max(((abs(fj.get(c, 0) / len(col) - fr[c] / len(rcol)), c) for c in set(fr) | set(fj)), key=lambda t: t[0])
            if worst[0] > band:
                cl = "dist_ask_index"
                return dict(res, ok=False, clause=cl, sig=dict(dsig, clause=cl),
                            detail=dict(name=nm, ask=j + 1, declared=dict(decls)[nm], cell=repr(worst[1]), freq_at_this_ask=fj.get(worst[1], 0) / len(col),
                                        freq_reference=fr[worst[1]] / len(rcol), allowed_difference=band, shift_bound_from_history=delta, n=len(col),
                                        decided_by="python (statistical test, level other)"))
    # asks 2..k pooled (sharper)
    if k > 1:
        delta = ((k - 1) * sum_p2) / (1 - (k - 1) * pmax) ** 2
        for nm in names:
            spec = specs[nm]
            col = [r[nm] for j in range(1, k) for r in rows[j] if active(nm, r)]
            if len(col) < 30 or (spec[0] == 2 and len(spec[1]) == 1):
                continue
            cell, rcol = cells_of(nm, spec)
            fr, fj = Counter(map(cell, rcol)), Counter(map(cell, col))
            band = delta + 6.5 * math.sqrt(0.25 / len(col) + 0.25 / len(rcol))
            worst = max(((abs(fj.get(c, 0) / len(col) - fr[c] / len(rcol)), c) for c in set(fr) | set(fj)), key=lambda t: t[0])
            if worst[0] > band:
                cl = "dist_later_asks"
                return dict(res, ok=False, clause=cl, sig=dict(dim=spec_desc(spec), clause=cl),
                            detail=dict(name=nm, declared=dict(decls)[nm], cell=repr(worst[1]), freq_asks_2_to_k=fj.get(worst[1], 0) / len(col),
                                        freq_reference=fr[worst[1]] / len(rcol), allowed_difference=band, n=len(col), decided_by="python (statistical test, level other)"))
    # the reference sample itself against the declarations (support clauses of the oracle)
    for nm in names:
        col = [r[nm] for r in ref if active(nm, r)]
        code = m.call(F_OKSUPPORT, [specs[nm], [enc_atom(v, toks, create=False) for v in col]])
        if code != 0:
            cl = SUPPORT_CLAUSE.get(code, str(code)) + "@reference"
            return dict(res, ok=False, clause=cl, sig=dict(clause=cl), detail=dict(name=nm, declared=dict(decls)[nm]))
    if bad:
        return dict(res, ok=False, **bad)
    res["desc"].append("shift_bound<=%.2f" % (((k - 1) * sum_p2) / (1 - (k - 1) * pmax) ** 2))
    return res


def gen_ask_sequence(count, nseeds):
    def gen(rng, tier):
        for i in range(count * (2 if tier == "search" else 1)):
            kind = ["conditional", "flat_log", "conditional_discrete_child", "flat_log_small", "flat_uniform", "flat_with_real"][i % 6]
            case = dict(surrogate=["RF", "DUMMY", "ET", "GP"][i % 4], k=rng.choice([4, 5, 6]), nseeds=nseeds, tell=i % 2 == 0, n_points=rng.choice([150, 250]), seed=rng.randint(0, 2 ** 30), kind=kind, nref=20000 if tier == "thorough" else 8000)
            if kind == "conditional":  # the inactive branch collapses onto few points
                cats = rng.sample(["linear", "tree", "knn"], rng.choice([2, 2, 3]))
                case["decls"] = [["model", dict(k="list", v=cats)], ["lr", dict(k="tuple", v=[0.001, 1.0] + (["log-uniform"] if rng.random() < 0.5 else []))],
                                 ["depth", dict(k="tuple", v=[1, rng.choice([8, 12, 20])])]]
                case["conditions"] = [["lr", "model", cats[0]]]
            elif kind == "conditional_discrete_child":
                case["decls"] = [["z_kind", dict(k="list", v=["a", "b"])], ["a_units", dict(k="tuple", v=[1, rng.choice([64, 256]), "log-uniform"])],
                                 ["width", dict(k="tuple", v=[0.0, 1.0])], ["act", dict(k="list", v=["relu", "tanh", "elu"])]]
                case["conditions"] = [["width", "z_kind", "a"], ["a_units", "z_kind", "b"]]
            elif kind == "flat_log":  # purely discrete, non-uniform: the likely points are repeated in every batch of candidates
                case["decls"] = [["units", dict(k="tuple", v=[1, rng.choice([1000, 4096]), "log-uniform"])], ["act", dict(k="list", v=rng.sample(["relu", "tanh", "elu"], rng.choice([2, 3])))]]
            elif kind == "flat_log_small":
                case["decls"] = [["units", dict(k="tuple", v=[1, rng.choice([64, 100]), "log-uniform"])], ["layers", dict(k="tuple", v=[1, rng.choice([6, 10])])], ["bn", dict(k="list", v=[True, False])]]
            elif kind == "flat_uniform":
                case["decls"] = [["a", dict(k="tuple", v=[0, rng.choice([5, 9])])], ["c", dict(k="list", v=["x", "y", "z"])], ["o", dict(k="list", v=[1, 2, 4, 8])]]
            else:
                case["decls"] = [["units", dict(k="tuple", v=[1, 100, "log-uniform"])], ["act", dict(k="list", v=["relu", "tanh"])], ["lr", dict(k="tuple", v=[1e-4, 1.0, "log-uniform"])]]
            yield case
    return gen


# ------------------------------------------------------------------------------------------------------------------ the de-duplication mechanism itself
def check_filter(case):
    """Optimizer._filter_duplicated (the mechanism every random ask goes through) against the model's filter_dup: functional
    correspondence on histories and batches of points of a small discrete space."""
    from deephyper.skopt.optimizer import Optimizer

    res = dict(ok=True, kind="corr", clause="", nontrivial=True, sig={}, desc=["hist=%d" % min(len(case["hist"]), 9), "batch=%d" % min(len(case["batch"]) // 10 * 10, 90)])
    opt = Optimizer([(0, 9), ["x", "y", "z"]], base_estimator="dummy", n_initial_points=5, random_state=0)
    if not hasattr(opt, "_filter_duplicated") or not hasattr(opt, "sampled"):
        return dict(res, nontrivial=False, desc=["mechanism_not_found"])
    pt = lambda t: [t // 3, "xyz"[t % 3]]
    tok = lambda x: int(x[0]) * 3 + "xyz".index(x[1])
    opt.sampled = [pt(t) for t in case["hist"]]
    got = [tok(x) for x in opt._filter_duplicated([pt(t) for t in case["batch"]])]
    want = model().call(F_FILTERDUP, [case["hist"], case["batch"]])
    if got != want:
        return dict(res, ok=False, clause="filter_duplicated", detail=dict(hist=case["hist"], batch=case["batch"], impl=got, model=want))
    return res


def gen_filter(count):
    def gen(rng, tier):
        for i in range(count):
            npts = rng.choice([3, 6, 12, 30])
            hist = rng.sample(range(npts), rng.randint(0, min(npts, 5))) if i % 4 else []
            batch = [rng.randrange(npts) if rng.random() < 0.8 else rng.randrange(30) for _ in range(rng.choice([1, 2, 5, 12, 40]))]
            yield dict(hist=hist, batch=batch)
    return gen


def shrink_filter(case):
    for i in range(len(case["batch"])):
        if len(case["batch"]) > 1:
            yield dict(case, batch=case["batch"][:i] + case["batch"][i + 1:])
    for i in range(len(case["hist"])):
        yield dict(case, hist=case["hist"][:i] + case["hist"][i + 1:])


# ------------------------------------------------------------------------------------------------------------------ generators
NAME_POOL = ["zeta", "alpha", "Beta", "m1", "_u", "x10", "x9", "lr", "batch_size", "units", "Act", "dropout", "k", "A", "b", "momentum", "0th", "z_last"]
STR_POOL = ["relu", "tanh", "sigmoid", "a", "b", "c", "adam", "sgd", "x", "y", "uniform", "log-uniform", "", "Z"]


def nice(x):
    """a float ConfigSpace keeps as it is (it rounds bounds to 13 decimals at construction: np.round(lower, 13))"""
    import numpy as np

    x = float(round(x, 6))
    return x if float(np.round(x, 13)) == x else float(round(x, 2))


def rand_float(rng):
    return nice(rng.choice([rng.uniform(-10, 10), rng.uniform(0, 1), rng.choice([0.5, 0.25, 1.0, 2.0, 1e-3, 1e-5, 100.0, 0.1]), float(rng.randint(-5, 50))]))


def rand_int(rng):
    return rng.choice([rng.randint(-20, 20), rng.randint(0, 5), rng.randint(1, 1000), rng.choice([0, 1, 2, 10, 100, 2 ** 31, -1])])


def gen_decl(rng, valid_only=False):
    """one declaration (JSON form).  valid_only: only declarations the code accepts and converts."""
    kinds = ["int", "int_log", "float", "float_log", "mixed", "cat", "ord", "const", "obj"] + ([] if valid_only else ["bad", "bad", "boolmix"])
    k = rng.choice(kinds)
    if k in ("int", "int_log"):
        lo = rand_int(rng) if not valid_only else rng.randint(-20, 50)
        if k == "int_log" and (valid_only or rng.random() < 0.8):
            lo = rng.randint(1, 30)
        hi = lo + (rng.choice([1, 2, 3, 5, 10, 100, 1000]) if valid_only or rng.random() < 0.85 else rng.choice([0, -1, -5]))
        v = [lo, hi]
        if k == "int_log":
            v.append("log-uniform")
        elif rng.random() < 0.3:
            v.append("uniform")
        return dict(k="tuple", v=v)
    if k in ("float", "float_log", "mixed"):
        lo = rand_float(rng)
        if k == "float_log" and (valid_only or rng.random() < 0.8):
            lo = rng.choice([1e-5, 1e-3, 0.5, 1.0, 3.0, rng.uniform(0.01, 5)])
        lo = nice(lo)
        hi = nice(lo + (rng.choice([0.5, 1.0, 10.0, 1e3, rng.uniform(0.1, 5)]) if valid_only or rng.random() < 0.85 else rng.choice([0.0, -1.0])))
        v = [lo, hi]
        if k == "mixed":
            j = rng.randint(0, 1)
            v[j] = int(math.floor(v[j])) if j == 0 else int(math.ceil(v[j])) + (1 if math.ceil(v[j]) <= v[0] else 0)
            if v[0] >= v[1] and valid_only:
                v = [0, 2.5]
        if k == "float_log":
            v.append("log-uniform")
        elif rng.random() < 0.3:
            v.append("uniform")
        return dict(k="tuple", v=v)
    if k == "cat":
        n = rng.choice([1, 2, 2, 3, 4, 6])
        pool = STR_POOL + [True, False]
        items = rng.sample(pool, n) if valid_only or rng.random() < 0.85 else [rng.choice(pool) for _ in range(n)]
        if rng.random() < 0.25 and not any(isinstance(x, bool) for x in items):
            items = items + [rng.choice([3, 2.5, 7])]
        if not any(isinstance(x, (str, bool)) for x in items):
            items[0] = "s0"
        if valid_only and (True in items or False in items):
            items = [x for x in items if x not in (0, 1) or isinstance(x, bool)]
        return dict(k="list", v=items)
    if k == "ord":
        n = rng.choice([1, 2, 3, 5, 8])
        items = sorted(rng.sample(range(-5, 40), n))
        if rng.random() < 0.4:
            items = [x + 0.5 if rng.random() < 0.5 else x for x in items]
        if rng.random() < 0.2:
            items.reverse()
        if not valid_only and rng.random() < 0.12 and n > 1:
            items[1] = float(items[0]) if rng.random() < 0.5 else items[0]
        return dict(k="list", v=items)
    if k == "const":
        return dict(k="scalar", v=rng.choice([rand_int(rng) if not valid_only else rng.randint(-9, 9), rng.choice([0.5, 2.0, -1.25]), rng.choice(STR_POOL), True] + ([] if valid_only else [None])))
    if k == "obj":
        c = rng.choice(["int", "float", "cat", "ord", "ord", "const"] + ([] if valid_only else ["normal"]))
        if c == "int":
            log = rng.random() < 0.5
            lo = rng.randint(1, 9) if log else rng.randint(-9, 9)
            return dict(k="obj", o=dict(cls="int", lo=lo, hi=lo + rng.choice([1, 4, 20, 500]), log=log))
        if c == "float":
            log = rng.random() < 0.5
            lo = rng.choice([1e-4, 0.5, 2.0]) if log else rng.choice([-3.5, 0.0, 0.25])
            return dict(k="obj", o=dict(cls="float", lo=lo, hi=lo + rng.choice([0.5, 3.0, 100.0]), log=log))
        if c == "cat":
            return dict(k="obj", o=dict(cls="cat", items=rng.sample(STR_POOL + [3, 7, 2.5], rng.choice([1, 2, 3, 5]))))
        if c == "ord":
            if rng.random() < 0.5:
                return dict(k="obj", o=dict(cls="ord", items=rng.sample(["low", "mid", "high", "xl", 4], rng.choice([2, 3, 4]))))
            return dict(k="obj", o=dict(cls="ord", items=sorted(rng.sample([1, 2, 4, 8, 16, 0.5, 32], rng.choice([1, 2, 4])))))
        if c == "const":
            return dict(k="obj", o=dict(cls="const", value=rng.choice([3, "fixed", 0.75])))
        return dict(k="obj", o=dict(cls="normal"))
    if k == "boolmix":
        return rng.choice([dict(k="tuple", v=[False, True]), dict(k="tuple", v=[True, 5]), dict(k="tuple", v=[0, True, "log-uniform"]), dict(k="list", v=[True, 1]),
                           dict(k="list", v=[1, 1.0]), dict(k="list", v=["a", 1, 1.0])])
    return rng.choice([dict(k="tuple", v=[1]), dict(k="tuple", v=[1, 2, "normal"]), dict(k="tuple", v=[1, 2, 3]), dict(k="tuple", v=[1, 5, "log-uniform", 4]), dict(k="tuple", v=[]),
                       dict(k="tuple", v=[1, "a"]), dict(k="tuple", v=["a", "b"]), dict(k="list", v=[]), dict(k="list", v=[None]), dict(k="scalar", v=None),
                       dict(k="tuple", v=[0, 5, "log-uniform"]), dict(k="tuple", v=[-1.0, 1.0, "log-uniform"]), dict(k="tuple", v=[0.0, 1.0, "log-uniform"]),
                       dict(k="tuple", v=[3, 3]), dict(k="tuple", v=[2.0, 2.0]), dict(k="tuple", v=[5, 1]), dict(k="list", v=["a", "a"]), dict(k="tuple", v=[1, 5, "Uniform"])])


SURROGATES = ["RF", "ET", "TB", "RS", "MF", "GBRT", "GP", "HGBRT", "DUMMY", None]


def gen_conversion(count):
    def gen(rng, tier):
        k = count * (3 if tier == "search" else 1)
        for i in range(k):
            n = rng.choice([1, 1, 2, 3, 4, 5, 7]) if tier != "search" else rng.choice([1, 1, 2])
            names = rng.sample(NAME_POOL, n)
            case = dict(decls=[[nm, gen_decl(rng)] for nm in names], surrogate=SURROGATES[i % len(SURROGATES)])
            if i % 3 == 1 and n >= 2:  # conditions added after the declarations; the child often sorts BEFORE its parent
                pairs = []
                for _ in range(rng.choice([1, 1, 2])):
                    c, pa = rng.sample(names, 2)
                    if rng.random() < 0.6 and c > pa:
                        c, pa = pa, c
                    pairs.append([c, pa])
                case["conditions"] = pairs
                case["conditions_plural"] = rng.random() < 0.3
            if i % 4 == 2:
                case["entry"] = rng.choice(["config_space", "add_list"])
            if i % 5 == 3:
                case["again"] = [rng.choice(SURROGATES), rng.choice(SURROGATES)]
            if i % 5 == 4:
                case["extra"] = [rng.choice(["AAA", "mm_extra", "zzzz"]), rng.choice([dict(k="tuple", v=[0, 9]), dict(k="list", v=["u", "v"]), dict(k="tuple", v=[0.5, 2.0, "log-uniform"])])]
            if i % 7 == 5:
                case["mutate"] = True
            yield case
    return gen


def shrink_conversion(case):
    d = case["decls"]
    for i in range(len(d)):
        if len(d) > 1:
            yield dict(case, decls=d[:i] + d[i + 1:])
    for i, (nm, x) in enumerate(d):
        if x["k"] in ("tuple", "list") and len(x["v"]) > 1:
            for j in range(len(x["v"])):
                if x["k"] == "list" or j >= 2:
                    y = dict(x, v=x["v"][:j] + x["v"][j + 1:])
                    yield dict(case, decls=d[:i] + [[nm, y]] + d[i + 1:])


# sampling problems: (name, declaration) lists with every kind of dimension, small and wide ranges
def sampling_decls(rng, variant):
    base = [
        [["i_small", dict(k="tuple", v=[rng.randint(-3, 3), 0])], 0],
        [["i_wide", dict(k="tuple", v=[rng.randint(-50, 0), rng.randint(400, 100000)])], 0],
        [["i_log", dict(k="tuple", v=[rng.choice([1, 2, 5]), rng.choice([64, 100, 1000, 4096]), "log-uniform"])], 0],
        [["i_log_small", dict(k="tuple", v=[1, rng.choice([4, 6, 9]), "log-uniform"])], 0],
        [["r_uni", dict(k="tuple", v=[rng.choice([-2.5, 0.0, 0.5]), rng.choice([1.0, 7.25, 100.0])])], 0],
        [["r_log", dict(k="tuple", v=[rng.choice([1e-4, 1e-3, 0.5, 1.0]), rng.choice([2.0, 10.0, 1e3]), "log-uniform"])], 0],
        [["cat", dict(k="list", v=rng.sample(["relu", "tanh", "sigmoid", "gelu", "elu", "selu"], rng.choice([2, 3, 4, 6])))], 0],
        [["cat_mixed", dict(k="list", v=["a", 3, 2.5, True][: rng.choice([3, 4])])], 0],
        [["ord", dict(k="list", v=sorted(rng.sample([1, 2, 4, 8, 16, 32, 64], rng.choice([3, 4, 5]))))], 0],
        [["ord_f", dict(k="list", v=[0.1, 0.5, 1, 2.5])], 0],
        [["const", dict(k="scalar", v=rng.choice([7, "fixed", 1.5]))], 0],
        [["obj_int", dict(k="obj", o=dict(cls="int", lo=2, hi=rng.choice([5, 9, 40]), log=False))], 0],
        [["obj_ord_s", dict(k="obj", o=dict(cls="ord", items=["low", "mid", "high"]))], 0],
        [["obj_flog", dict(k="obj", o=dict(cls="float", lo=0.01, hi=10.0, log=True))], 0],
        # falsy values in legal places (0, 0.0, False, "" as bound / choice / constant - not first in the list)
        [["a_zero_cross", dict(k="tuple", v=[-rng.choice([1, 2, 3]), rng.choice([1, 2, 4])])], 0],
        [["b_bool", dict(k="list", v=rng.choice([[True, False], [False, True]]))], 0],
        [["c_empty_str", dict(k="list", v=["a", "", "b"])], 0],
        [["d_ord_zero", dict(k="list", v=rng.choice([[2, 1, 0], [1.5, 0.0, 3], [-1, 0, 1]]))], 0],
        [["e_const_falsy", dict(k="scalar", v=rng.choice([0, "", False, 0.0]))], 0],
        # numeric edge values: the int32 boundary, 2^40, a relative width of 1e-6, eighteen decades, negative ranges
        [["f_int32_edge", dict(k="tuple", v=[2 ** 31 - 3, 2 ** 31 + rng.choice([1, 3])])], 0],
        [["g_huge", dict(k="tuple", v=rng.choice([[0, 2 ** 40], [-2 ** 40, -2 ** 40 + 5], [1, 2 ** 40, "log-uniform"]]))], 0],
        [["h_tiny_width", dict(k="tuple", v=rng.choice([[1.0, 1.000001], [-1e6, -1e5], [0.0, 1e6]]))], 0],
        [["i_wide_log", dict(k="tuple", v=[1e-9, 1e9, "log-uniform"])], 0],
    ]
    decls = [b[0] for b in base]
    # fix i_small so that lo < hi
    for nm, d in decls:
        if nm == "i_small":
            lo = d["v"][0]
            d["v"] = [lo, lo + rng.choice([1, 2, 3, 6, 9])]
    if variant == "all":
        chosen = decls
    else:
        chosen = rng.sample(decls, rng.randint(2, 6))
    if not any(nm in ("r_uni", "r_log", "obj_flog") for nm, _ in chosen):
        chosen.append(decls[4])
    if variant == "some" and not any(nm in ("cat", "ord", "obj_ord_s", "b_bool", "d_ord_zero") for nm, _ in chosen) and rng.random() < 0.7:
        chosen.append(decls[rng.choice([6, 8, 12])])
    rng.shuffle(chosen)
    return [[nm, d] for nm, d in chosen]


PARENTS = ("cat", "ord", "obj_ord_s", "b_bool", "d_ord_zero", "c_empty_str")
REALS = ("r_uni", "r_log", "obj_flog")


def gen_sampling(paths, per_path, n_draws):
    def gen(rng, tier):
        k = per_path * (2 if tier == "search" else 1)
        for path in paths:
            surs = {"space_rvs": ["RF", "DUMMY", None], "space_rvs_cs": ["RF", "DUMMY"], "cbo_ask": ["RF", "ET", "DUMMY", "GP", "TB"], "random_search": [None],
                    "dim_rvs": ["RF", "DUMMY"]}[path]
            for i in range(k):
                decls = sampling_decls(rng, "all" if i % 6 == 0 and not (path == "cbo_ask" and i % 5 == 2) else "some")
                case = dict(decls=decls, surrogate=surs[i % len(surs)], path=path, seed=rng.randint(0, 2 ** 31 - 1), n=n_draws)
                if case["surrogate"] == "GP" and not any(nm in ("i_log", "i_log_small") for nm, _ in decls):
                    decls.append(["i_log", dict(k="tuple", v=[rng.choice([1, 2]), rng.choice([100, 1000]), "log-uniform"])])  # the normalizing family with every kind of prior
                if path == "cbo_ask":
                    case["filter_duplicated"] = i % 2 == 1
                    case["one_by_one"] = i % 5 == 2      # 4000 single ask() calls (the _ask path), 8 candidates each, no de-duplication
                    if case["one_by_one"]:
                        case["filter_duplicated"] = False
                if path == "random_search":
                    case["one_by_one"] = i % 4 == 3
                if path == "space_rvs":
                    case["rs_object"] = i % 2 == 1
                    if i % 4 == 1:
                        case["n_jobs"] = 2
                if path == "dim_rvs":
                    case["chunks"] = True
                    case["normalize"] = i % 2 == 1
                # one object, many calls of different sizes; the caller edits what it got back; pickling; other entry points
                if i % 3 == 1 and not case.get("one_by_one"):
                    case["chunks"] = True
                if path in ("space_rvs", "space_rvs_cs", "dim_rvs") and i % 6 == 4:
                    case["chunks"] = "ones"      # n calls with n_samples = 1 (Space.rvs special-cases it on the ConfigSpace path)
                if i % 4 in (1, 2):
                    case["mutate_returned"] = True
                if i % 5 == 0:
                    case["pickle"] = True
                if i % 4 == 3:
                    case["entry"] = "config_space" if i % 8 == 3 else "add_list"
                structured = path == "space_rvs_cs" or (path in ("random_search", "cbo_ask") and i % 2 == 0)
                if structured:
                    names = [nm for nm, _ in decls]
                    reals = [nm for nm in names if nm in REALS]
                    parents = [(nm, d) for nm, d in decls if nm in PARENTS]
                    rng.shuffle(parents)
                    if parents and i % 4 != 3:
                        pn, pd = parents[0]
                        items = pd["v"] if pd["k"] == "list" else pd["o"]["items"]
                        others = [nm for nm in names if nm != pn and not (path == "cbo_ask" and case.get("filter_duplicated") and nm in reals[:1])]
                        before = [nm for nm in others if nm < pn]      # a child that sorts before its parent makes ConfigSpace re-order
                        child = rng.choice(before) if before and rng.random() < 0.7 else rng.choice(others)
                        case["conditions"] = [[child, pn, items[rng.randrange(len(items))]]]
                        if len(parents) > 1 and i % 3 == 0:
                            pn2, pd2 = parents[1]
                            items2 = pd2["v"] if pd2["k"] == "list" else pd2["o"]["items"]
                            others2 = [nm for nm in others if nm not in (child, pn2)]
                            if others2:
                                case["conditions"].append([rng.choice(others2), pn2, items2[0]])
                        case["conditions_plural"] = i % 6 == 0
                        case["n"] = n_draws * 2
                    elif reals:
                        rn = reals[0]
                        d = dict(decls)[rn]
                        lo, hi = (d["v"][0], d["v"][1]) if d["k"] == "tuple" else (d["o"]["lo"], d["o"]["hi"])
                        case["forbidden"] = [[rn, lo + (hi - lo) * 0.3125]]
                    if path == "space_rvs_cs" and not case.get("conditions") and not case.get("forbidden"):
                        continue
                yield case
    return gen


def shrink_sampling(case):
    d = case["decls"]
    used = {c[0] for c in case.get("conditions", [])} | {c[1] for c in case.get("conditions", [])} | {f[0] for f in case.get("forbidden", [])}
    for i in range(len(d)):
        if len(d) > 1 and d[i][0] not in used:
            yield dict(case, decls=d[:i] + d[i + 1:])


def streams(tier):
    th = tier == "thorough"
    n = 16000 if th else 4000
    return [
        Stream("conversion", gen_conversion(30000 if th else 2500), check_conversion, shrink_conversion, timeout=60),
        Stream("extreme_quantiles", gen_extremes(400 if th else 32), check_extremes, shrink_sampling, timeout=60),
        Stream("normalized_quantile", gen_quantile(3000 if th else 300), check_quantile, None, timeout=30),
        Stream("space_rvs", gen_sampling(["space_rvs", "space_rvs_cs", "dim_rvs"], 50 if th else 8, n), check_sampling, shrink_sampling, timeout=300),
        Stream("optimizer_ask", gen_sampling(["cbo_ask"], 80 if th else 18, n), check_sampling, shrink_sampling, timeout=300),
        Stream("ask_sequence", gen_ask_sequence(24 if th else 6, 300 if th else 130), check_ask_sequence, None, timeout=600),
        Stream("filter_duplicated", gen_filter(3000 if th else 400), check_filter, shrink_filter, timeout=30),
        Stream("random_search", gen_sampling(["random_search"], 60 if th else 9, n), check_sampling, shrink_sampling, timeout=300),
    ]
