"""C09 - Space transforms round-trip and stay inside their bounds.

Tie (functional correspondence, DESIGN.md 4 C09):
  * the extracted Coq model (coq/theories/C09_Transforms: Dims.v + Model.v) is run with R = identity on exact
    rationals, with np.log10 / base**x supplied as finite tables of the values libm returns (the oracles lg, pw of
    the theorems), and compared with Space.transform / Space.inverse_transform / transformed_bounds /
    transformed_n_dims: integer and categorical outputs exactly, real outputs within a tolerance of a few ulp
    scaled by the conditioning of the step (see tol_* below);
  * the PROPERTY itself (shape of transform(X), coordinates inside transformed_bounds, shape of the round trip,
    membership of every round-tripped point, integer / categorical values returned exactly, reals within
    rounding) is decided by the extracted oracle ok_C09 (Check.v, reflection lemma ok_C09_spec) on the exact
    rational values of the implementation's binary64 outputs.
"""
import math
from fractions import Fraction

import numpy as np

from ..driver import model
from ..runner import Stream

PROPERTY = "C09"
LEVEL = "proof"
FACTS = None
COQ_DIRS = ("Common",)
TRUSTED = [
    "libm log10 / pow and binary64 rounding are oracles of the model (Section variables R, lg, pw; theorems quantify over them); "
    "the executable model runs with R = id and lg/pw tables recorded from numpy by the harness",
    "tolerances for real coordinates (harness, c09.py tol_*): 4-16 ulp of the largest operand of the step, times ln(base)*|log_b x| on the log path",
    "category tokens: non-numeric categories (str, bool) are replaced by their rank in np.unique order (Python sort order)",
    "Normalize's guard clauses (ValueError for out-of-range input) and LabelEncoder's KeyError are not in the model: any exception on a point of the space is reported as a failure",
    "sklearn LabelBinarizer (one-hot encode / decode), numpy round/clip/astype",
]
ASSUMPTIONS = [
    "category lists are type-homogeneous and duplicate-free; identity transform only for numeric categories",
    "priors uniform and log-uniform (Real's 'normal' prior is not used by the search stack's conversion)",
    "spaces with a float-valued warped column (normalize, log, real, float categories under identity): integer bounds |.| <= 2^47 (uniform) and 1 <= low < high <= 2^40 (log-uniform) - "
    "above ~2^47 base**x in binary64 cannot return integers exactly (seen: 2^48), and one float column makes the whole warped array float64; "
    "spaces whose warped columns are ALL integral (identity Integer, int-category identity ordinals, label / onehot categoricals: stream intspaces) are exact "
    "for every int64 value and are checked up to +-2^62",
    "finite, normal binary64 bounds with 1e-300 <= |.| <= 1e300",
]
RULE = ("dims: single dimensions, every kind x prior x transform, points on / next to the bounds (math.nextafter), powers of the base, "
        "negative ranges, magnitudes 1e-300..1e300; spaces: 1-8 mixed dimensions, 1-50 rows; problem: dimensions as created by "
        "deephyper.hpo HpProblem -> convert_to_skopt_space (RF / GP flavour, optionally normalize_dimensions); respace: ONE Space "
        "object taken through a sequence of transformer switches (Space.set_transformer with a string / a list, "
        "Dimension.set_transformer, normalize_dimensions, set_transformer_by_type, reassignment of space.dimensions), "
        "checked against the model of the CURRENT configuration before the first and after every switch; intspaces: spaces with integral warped "
        "columns only (identity Integer, int identity ordinals, label / onehot categoricals), bounds / categories up to +-2^62, points 2^53+1, 2^62-1, -2^62, "
        "exact round trip (integer arithmetic: no rounding oracle), also through switches between the integral transforms. "
        "non-trivial = some dimension does arithmetic (log / normalize / label / onehot) or a point lies on a bound")

F_TRANSFORM, F_PWARGS, F_INVERSE, F_INVERSE_TODAY, F_OK, F_TBOUNDS, F_TDIMS, F_INSPACE, F_SWITCH = 901, 902, 903, 904, 905, 906, 907, 908, 909
CLAUSES = {1: "shape_transform", 2: "transformed_in_bounds", 3: "shape_inverse", 4: "member", 5: "roundtrip_value"}
U = Fraction(1, 2 ** 52)


# ----------------------------------------------------------------------------------------------- encoding
def fr(v):
    if isinstance(v, (bool, np.bool_)):
        return Fraction(int(v))
    if isinstance(v, (int, np.integer)):
        return Fraction(int(v))
    return Fraction(float(v))


def q(f):
    f = Fraction(f)
    return [f.numerator, f.denominator]


def unq(p):
    return Fraction(p[0], p[1])


def ulp(v):
    return Fraction(math.ulp(float(abs(v)))) if v != 0 else Fraction(math.ulp(0.0))


NTR = {"identity": 0, "normalize": 1}
CTR = {"identity": 0, "label": 1, "onehot": 2, "normalize": 3}
CK = {"int": 0, "float": 1, "str": 2, "bool": 2}


def cat_tokens(d):
    """category value -> model value (Fraction).  str/bool: rank in sorted order (= np.unique order)."""
    cats = d["cats"]
    if d["ck"] in ("int", "float"):
        return {c: fr(c) for c in cats}
    order = sorted(cats)
    return {c: Fraction(order.index(c)) for c in cats}


def enc_dim(d):
    if d["kind"] == "real":
        pr = [] if d["prior"] == "uniform" else [q(fr(d["base"]))]
        return [0, q(fr(d["lo"])), q(fr(d["hi"])), pr, NTR[d["tr"]]]
    if d["kind"] == "int":
        pr = [] if d["prior"] == "uniform" else [q(fr(d["base"]))]
        return [1, int(d["lo"]), int(d["hi"]), pr, NTR[d["tr"]]]
    tok = cat_tokens(d)
    return [2, CK[d["ck"]], [q(tok[c]) for c in d["cats"]], CTR[d["tr"]]]


REAL_DTYPES = {"float": float, "floatstr": "float", "np.float64": np.float64}
INT_DTYPES = {"np.int64": np.int64, "int": int, "int64str": "int64"}


def make_dim(d):
    from deephyper.skopt.space import Categorical, Integer, Real

    if d["kind"] == "real":
        return Real(d["lo"], d["hi"], prior=d["prior"], base=d.get("base", 10), transform=d["tr"], dtype=REAL_DTYPES[d.get("dtype", "float")])
    if d["kind"] == "int":
        return Integer(d["lo"], d["hi"], prior=d["prior"], base=d.get("base", 10), transform=d["tr"], dtype=INT_DTYPES[d.get("dtype", "np.int64")])
    handed = list(d["cats"])
    dim = Categorical(handed, transform=d["tr"])
    # the caller keeps editing the list it handed over: the dimension must not see it (also after a later set_transformer)
    handed.reverse()
    handed.append("__not_a_category__")
    return dim


def describe_dim(dim):
    """the case-format description of an skopt dimension object (used by the 'problem' stream)"""
    from deephyper.skopt.space import Categorical, Integer, Real

    if isinstance(dim, Real):
        return dict(kind="real", lo=float(dim.low), hi=float(dim.high), prior=dim.prior, base=dim.base, tr=dim.transform_)
    if isinstance(dim, Integer):
        return dict(kind="int", lo=int(dim.low), hi=int(dim.high), prior=dim.prior, base=dim.base, tr=dim.transform_)
    assert isinstance(dim, Categorical)
    cats = [c.item() if isinstance(c, np.generic) else c for c in dim.categories]
    if all(isinstance(c, bool) for c in cats):
        ck = "bool"
    elif all(isinstance(c, int) and not isinstance(c, bool) for c in cats):
        ck = "int"
    elif all(isinstance(c, float) for c in cats):
        ck = "float"
    elif all(isinstance(c, str) for c in cats):
        ck = "str"
    else:
        raise ValueError("category list is not type-homogeneous: %r" % (cats,))
    return dict(kind="cat", cats=cats, ck=ck, tr=dim.transform_)


def lg_table(dims, X):
    keys = {}
    for j, d in enumerate(dims):
        if d["kind"] != "cat" and d["prior"] == "log-uniform":
            for v in [d["base"], d["lo"], d["hi"]] + [row[j] for row in X]:
                keys[fr(v)] = float(v)
    with np.errstate(all="ignore"):
        return [[q(k), q(fr(np.log10(np.asarray([v], dtype=float))[0]))] for k, v in sorted(keys.items()) if v > 0]


def pw_table(queries):
    tab, seen = [], set()
    for b, t in queries:
        key = (tuple(b), tuple(t))
        if key in seen:
            continue
        seen.add(key)
        with np.errstate(all="ignore"):
            v = float(np.power(np.float64(float(unq(b))), np.asarray([float(unq(t))], dtype=float))[0])
        if math.isfinite(v):
            tab.append([b, t, q(fr(v))])
    return tab


def cell_to_model(d, tok, v):
    """implementation value of the original space -> Fraction (model value).  A category that is not one of the declared
    ones has no token: it becomes -1 (member of no token list) / its numeric value."""
    if d["kind"] == "cat":
        if d["ck"] == "str":
            return tok.get(str(v), Fraction(-1)) if isinstance(v, (str, np.str_)) else Fraction(-1)
        if d["ck"] == "bool":
            return tok.get(bool(v), Fraction(-1)) if isinstance(v, (bool, np.bool_)) or v in (0, 1) else Fraction(-1)
        return fr(v)
    return fr(v)


def type_ok(d, v):
    """'integer and categorical values exactly': an integer is an integer (not 3.0, not True), a str a str, a bool a bool"""
    if d["kind"] == "real":
        return isinstance(v, (float, np.floating))
    if d["kind"] == "int":
        return isinstance(v, (int, np.integer)) and not isinstance(v, (bool, np.bool_))
    if d["ck"] == "str":
        return isinstance(v, (str, np.str_))
    if d["ck"] == "bool":
        return isinstance(v, (bool, np.bool_))
    if d["ck"] == "int":
        return isinstance(v, (int, np.integer)) and not isinstance(v, (bool, np.bool_))
    return isinstance(v, (float, np.floating))


def as_input(d, v, variant):
    """the same point of the space written with another Python type of equal value"""
    if variant == "np":
        if isinstance(v, bool):
            return np.bool_(v)
        if isinstance(v, int):
            return np.int64(v) if abs(v) < 2 ** 62 else v
        if isinstance(v, float):
            return np.float64(v)
        if isinstance(v, str):
            return np.str_(v)
    if variant == "intreal" and d["kind"] == "real" and isinstance(v, float) and v == int(v) and abs(v) < 2 ** 53:
        return int(v)
    return v


# ----------------------------------------------------------------------------------------------- tolerances
def log_stats(d):
    b = float(d["base"])
    tl, th = math.log10(float(d["lo"])) / math.log10(b), math.log10(float(d["hi"])) / math.log10(b)
    return math.log(b), max(abs(tl), abs(th)), th - tl


def tol_prop(d):
    """(absolute, relative) tolerance of the PROPERTY's 'real values to within floating-point rounding' for one real dimension:
    round trip x -> x'.  uniform/identity is exact; normalize costs a few ulp of the larger bound; the log path amplifies the
    rounding of log_b x by ln(b) * |log_b x|."""
    if d["kind"] != "real":
        return (Fraction(0), Fraction(0))
    if d["prior"] == "uniform":
        if d["tr"] == "identity":
            return (Fraction(0), Fraction(0))
        return (16 * ulp(max(abs(d["lo"]), abs(d["hi"]))), Fraction(0))
    lnb, mt, _ = log_stats(d)
    amp = Fraction(lnb * max(mt, 1.0))
    return (Fraction(0), U * (4 + (4 if d["tr"] == "identity" else 16) * amp))


def tol_fwd(d, mval):
    """model(R = id) vs implementation, warped coordinate"""
    if d["kind"] == "cat":
        return 4 * ulp(mval) if d["tr"] == "normalize" else Fraction(0)
    if d["prior"] == "uniform":
        return Fraction(0) if d["tr"] == "identity" else 4 * ulp(mval)
    if d["tr"] == "identity":
        return 4 * ulp(mval)
    _, mt, wt = log_stats(d)
    if wt <= 0:
        # the two log-bounds collapse to one binary64 value (adjacent bounds): the code takes its width-0 branch, the exact model
        # does not; the warped coordinate is ill-conditioned there - only the oracle clauses (in bounds, round trip) apply
        return Fraction(1)
    return 4 * ulp(mval) + 8 * ulp(mt) / Fraction(wt) + 4 * ulp(1.0)


def tol_inv(d, mval):
    """model(R = id) applied to the implementation's warped values vs the implementation's inverse, original coordinate"""
    if d["kind"] != "real":
        return Fraction(0)
    if d["prior"] == "uniform":
        return Fraction(0) if d["tr"] == "identity" else 8 * ulp(max(abs(d["lo"]), abs(d["hi"])))
    lnb, mt, _ = log_stats(d)
    # base ** t: any implementation of pow may err by ~|t ln b| ulp of the result (exp(t ln b) does); normalize adds the
    # rounding of t itself
    return abs(mval) * (Fraction(lnb) * (4 if d["tr"] == "identity" else 8) * ulp(max(mt, 1.0)) + 4 * U)


# ----------------------------------------------------------------------------------------------- the check
def dim_key(d):
    if d["kind"] == "cat":
        return "cat/%s/%s/n%s" % (d["ck"], d["tr"], min(len(d["cats"]), 3))
    return "%s/%s/%s" % (d["kind"], d["prior"], d["tr"])


def res_base(dims, X):
    on_bound = any(d["kind"] != "cat" and row[j] in (d["lo"], d["hi"]) for row in X for j, d in enumerate(dims))
    arith = any(not (d["kind"] == "real" and d["prior"] == "uniform" and d["tr"] == "identity") for d in dims)
    n = len(X)
    desc = sorted(set(dim_key(d) for d in dims)) + ["rows=%s" % (n if n <= 2 else "3-10" if n <= 10 else "11-50"), "ndims=%d" % len(dims)]
    return dict(ok=True, kind="oracle", clause="", sig={}, nontrivial=bool(on_bound or arith), desc=desc)


def run_space(dims, X, space=None, dim_level=False, variant=None, feedback=True):
    """dims: list of dimension descriptions; X: rows (python values).  Returns the result dict."""
    from deephyper.skopt.space import Space

    res = res_base(dims, X)
    m = model()
    if space is None:
        space = Space([make_dim(d) for d in dims])
    toks = [cat_tokens(d) if d["kind"] == "cat" else None for d in dims]
    msp = [enc_dim(d) for d in dims]
    has_ident_int = any(d["kind"] == "cat" and d["tr"] == "identity" and d["ck"] == "int" for d in dims)
    sigx = {"cat_identity_int": has_ident_int, "rows_gt1": len(X) > 1}

    # ---- implementation ----
    import copy

    Xin = [[as_input(d, v, variant) for d, v in zip(dims, r)] for r in X]
    Xin0 = copy.deepcopy(Xin)
    Xt_ret = space.transform(Xin)
    if repr(Xin) != repr(Xin0):
        return dict(res, ok=False, clause="input_mutated", sig=dict(sigx, clause="input_mutated"), detail=dict(after="transform", X=repr(Xin)[:500]))
    Xt = np.array(Xt_ret, copy=True)
    Xt_keep = Xt.copy()
    tb = space.transformed_bounds
    ntd = space.transformed_n_dims
    try:
        X2_ret = space.inverse_transform(Xt)
    except (IndexError, KeyError, ValueError, TypeError) as e:
        return dict(res, ok=False, clause="inverse_raises:" + type(e).__name__, sig=dict(sigx, clause="inverse_raises:" + type(e).__name__),
                    detail=dict(error=repr(e), Xt=np.asarray(Xt).tolist(), model_of_pinned_code=today_model(m, dims, msp, X, Xt)))
    if Xt.shape != Xt_keep.shape or Xt.tobytes() != Xt_keep.tobytes():
        return dict(res, ok=False, clause="input_mutated", sig=dict(sigx, clause="input_mutated"), detail=dict(after="inverse_transform"))
    X2 = [list(r) for r in X2_ret]
    # the caller scribbles over what it got back; a second call with the same input must give the same answer
    try:
        if isinstance(Xt_ret, np.ndarray) and Xt_ret.flags.writeable and Xt_ret.dtype.kind in "fiu":
            Xt_ret.fill(7)
        for r in X2_ret:
            if isinstance(r, list):
                for k in range(len(r)):
                    r[k] = None
    except (ValueError, TypeError):
        pass
    Xt_again = np.asarray(space.transform(Xin))
    if Xt_again.shape != Xt.shape or repr(Xt_again.tolist()) != repr(Xt.tolist()):
        return dict(res, ok=False, clause="repeat_call", sig=dict(sigx, clause="repeat_call"), detail=dict(which="transform", first=Xt.tolist(), second=Xt_again.tolist()))
    X2_again = space.inverse_transform(Xt)
    if repr([list(r) for r in X2_again]) != repr(X2):
        return dict(res, ok=False, clause="repeat_call", sig=dict(sigx, clause="repeat_call"), detail=dict(which="inverse_transform", first=repr(X2)[:600], second=repr(X2_again)[:600]))
    if len(Xin) > 1:
        # transform / inverse_transform act row by row: the same rows in another order give the same rows in that order
        # (a result remembered from an earlier call of the same shape, or any dependence between rows, shows here)
        Xt_rev = np.asarray(space.transform(Xin[::-1]))
        if Xt_rev.shape != Xt.shape or repr(Xt_rev.tolist()) != repr(Xt[::-1].tolist()):
            return dict(res, ok=False, clause="row_order", sig=dict(sigx, clause="row_order"), detail=dict(which="transform", rows=Xt.tolist(), reversed_input=Xt_rev.tolist()))
        X2_rev = space.inverse_transform(Xt[::-1].copy())
        if repr([list(r) for r in X2_rev]) != repr(X2[::-1]):
            return dict(res, ok=False, clause="row_order", sig=dict(sigx, clause="row_order"), detail=dict(which="inverse_transform", rows=repr(X2)[:600], reversed_input=repr(X2_rev)[:600]))
    bad = [(i, j, repr(v), type(v).__name__) for i, r in enumerate(X2) for j, (d, v) in enumerate(zip(dims, r)) if not type_ok(d, v)]
    if bad:
        return dict(res, ok=False, clause="value_type", sig=dict(sigx, clause="value_type", dimkey=dim_key(dims[bad[0][1]])), detail=dict(cells=bad[:5]))
    Xt = np.asarray(Xt)
    if Xt.ndim != 2:
        return dict(res, ok=False, clause="shape_transform", detail=dict(shape=list(Xt.shape)))
    Xt_q = [[fr(v) for v in row] for row in Xt.tolist()]
    tb_q = [(fr(lo), fr(hi)) for lo, hi in tb]
    X_q = [[cell_to_model(d, t, v) for d, t, v in zip(dims, toks, row)] for row in X]
    X2_q = [[cell_to_model(d, t, v) for d, t, v in zip(dims, toks, row)] for row in X2]
    tols = [tol_prop(d) for d in dims]

    # ---- the property, decided by the extracted oracle on the implementation's exact values ----
    code = m.call(F_OK, [msp, [[q(a), q(b)] for a, b in tb_q], [[q(a), q(b)] for a, b in tols],
                         [[q(v) for v in r] for r in X_q], [[q(v) for v in r] for r in Xt_q], [[q(v) for v in r] for r in X2_q]])
    if code != 0:
        clause = CLAUSES.get(code, "clause%d" % code)
        sig = dict(sigx, clause=clause)
        detail = dict(Xt=Xt.tolist(), X2=[[repr(v) for v in r] for r in X2], tb=[[repr(a), repr(b)] for a, b in tb])
        if code == 4:  # which cells left the space, and how far from the input (signature only; the verdict is the oracle's)
            kinds, off = set(), "rounding"
            for row, xrow in zip(X2_q, X_q):
                for d, md, v, x, (ta, trel) in zip(dims, msp, row, xrow, tols):
                    if not m.call(F_INSPACE, [[md], [q(v)]]):
                        kinds.add(d["kind"])
                        if abs(v - x) > ta + trel * abs(x):
                            off = "far"
            sig.update(kinds="+".join(sorted(kinds)), off=off)
        if code in (1, 3):
            detail.update(model_of_pinned_code=today_model(m, dims, msp, X, Xt))
            detail.update(rows_in=len(X), rows_t=int(Xt.shape[0]), rows_out=len(X2), n_dims=len(dims), t_dims=int(ntd))
        return dict(res, ok=False, clause=clause, sig=sig, detail=detail)

    # ---- ask -> tell loop: what inverse_transform returned (numpy scalars) is a point of the space: it must go through again
    if feedback:
        Xt_b = np.asarray(space.transform([list(r) for r in X2]))
        X3 = space.inverse_transform(Xt_b)
        if Xt_b.ndim != 2:
            return dict(res, ok=False, clause="feedback_shape_transform", detail=dict(shape=list(Xt_b.shape)))
        X3_q = [[cell_to_model(d, t, v) for d, t, v in zip(dims, toks, row)] for row in X3]
        code = m.call(F_OK, [msp, [[q(a), q(b)] for a, b in tb_q], [[q(a), q(b)] for a, b in tols],
                             [[q(v) for v in r] for r in X2_q], [[q(fr(v)) for v in r] for r in Xt_b.tolist()], [[q(v) for v in r] for r in X3_q]])
        if code != 0:
            cl = "feedback_" + CLAUSES.get(code, "clause%d" % code)
            return dict(res, ok=False, clause=cl, sig=dict(sigx, clause=cl), detail=dict(X2=repr(X2)[:600], Xt=Xt_b.tolist(), X3=repr(X3)[:600]))

    # ---- Dimension-level API agrees with the Space-level one (observe_at: Dimension.transform / inverse_transform) ----
    if dim_level:
        start = 0
        for j, (d, dim) in enumerate(zip(dims, space.dimensions)):
            w = dim.transformed_size
            col = np.asarray(dim.transform([row[j] for row in X]))
            if col.reshape((len(X), -1)).tolist() != Xt[:, start:start + w].tolist():
                return dict(res, ok=False, kind="corr", clause="dimension_vs_space_transform", detail=dict(dim=j))
            back = dim.inverse_transform(Xt[:, start] if w == 1 else Xt[:, start:start + w])
            if [cell_to_model(d, toks[j], v) for v in back] != [r[j] for r in X2_q]:
                return dict(res, ok=False, kind="corr", clause="dimension_vs_space_inverse", detail=dict(dim=j))
            start += w

    # ---- correspondence with the model ----
    lgt = lg_table(dims, X)
    if m.call(F_TDIMS, msp) != ntd:
        return dict(res, ok=False, kind="corr", clause="transformed_n_dims", detail=dict(impl=int(ntd)))
    mtb = [(unq(a), unq(b)) for a, b in m.call(F_TBOUNDS, [msp, lgt])]
    if len(mtb) != len(tb_q) or any(abs(a - c) > 4 * ulp(c) or abs(b - e) > 4 * ulp(e) for (a, b), (c, e) in zip(mtb, tb_q)):
        return dict(res, ok=False, kind="corr", clause="transformed_bounds", detail=dict(impl=[[repr(a), repr(b)] for a, b in tb], model=[[float(a), float(b)] for a, b in mtb]))
    owner = [d for d in dims for _ in range(_tsize(d))]
    XqL = [[q(v) for v in r] for r in X_q]
    mXt = m.call(F_TRANSFORM, [msp, XqL, lgt])
    if [len(r) for r in mXt] != [len(r) for r in Xt_q]:
        return dict(res, ok=False, kind="corr", clause="transform_shape", detail=dict(model=[len(r) for r in mXt]))
    for i, (mr, ir) in enumerate(zip(mXt, Xt_q)):
        for k, (mv, iv) in enumerate(zip(mr, ir)):
            mv = unq(mv)
            if abs(mv - iv) > tol_fwd(owner[k], mv):
                return dict(res, ok=False, kind="corr", clause="transform_value", sig={"dimkey": dim_key(owner[k])},
                            detail=dict(row=i, col=k, model=float(mv), impl=float(iv), diff=float(mv - iv)))
    XtL = [[q(v) for v in r] for r in Xt_q]
    pwt = pw_table(m.call(F_PWARGS, [msp, XtL, lgt]))
    mX2 = m.call(F_INVERSE, [msp, XtL, lgt, pwt])
    if [len(r) for r in mX2] != [len(r) for r in X2_q]:
        return dict(res, ok=False, kind="corr", clause="inverse_shape", detail=dict(model=[len(r) for r in mX2]))
    for i, (mr, ir) in enumerate(zip(mX2, X2_q)):
        for k, (mv, iv) in enumerate(zip(mr, ir)):
            mv = unq(mv)
            if abs(mv - iv) > tol_inv(dims[k], mv):
                return dict(res, ok=False, kind="corr", clause="inverse_value", sig={"dimkey": dim_key(dims[k])},
                            detail=dict(row=i, col=k, model=float(mv), impl=float(iv), diff=float(mv - iv)))
    # the model's own round trip (what C09_roundtrip_exact states, executed with the recorded lg / pw)
    pwt2 = pw_table(m.call(F_PWARGS, [msp, mXt, lgt]))
    mrt = m.call(F_INVERSE, [msp, mXt, lgt, pwt2])
    for i, (mr, xr) in enumerate(zip(mrt, X_q)):
        for k, (mv, xv) in enumerate(zip(mr, xr)):
            mv = unq(mv)
            a, r = tols[k]
            if abs(mv - xv) > a + r * abs(xv):
                return dict(res, ok=False, kind="corr", clause="model_roundtrip", sig={"dimkey": dim_key(dims[k])},
                            detail=dict(row=i, col=k, model=float(mv), x=float(xv)))
    return res


def today_model(m, dims, msp, X, Xt):
    """what Model.inverse_today (the model of the PINNED code, the one the *_refuted theorems are about) predicts for the
    implementation's warped values: 'IndexError' or the number of rows - reported next to a shape failure"""
    try:
        XtL = [[q(fr(v)) for v in row] for row in np.asarray(Xt).tolist()]
        lgt = lg_table(dims, X)
        r = m.call(F_INVERSE_TODAY, [msp, XtL, lgt, pw_table(m.call(F_PWARGS, [msp, XtL, lgt]))])
        return "IndexError" if r == [] else "rows=%d" % len(r[0])
    except Exception as e:  # diagnostic only
        return "n/a (%s)" % type(e).__name__


def _tsize(d):
    if d["kind"] == "cat" and d["tr"] == "onehot":
        n = len(d["cats"])
        return 1 if n == 2 else n
    return 1


def check_space(case):
    return run_space(case["dims"], case["X"], dim_level=len(case["dims"]) == 1, variant=case.get("variant"))


def check_problem(case):
    """dimensions as the search stack creates them: HpProblem -> ConfigSpace -> convert_to_skopt_space(surrogate)
    [-> normalize_dimensions, as Optimizer does for GP]; the model's description is read back from the created objects."""
    from deephyper.hpo import HpProblem
    from deephyper.hpo._problem import convert_to_skopt_space
    from deephyper.skopt.utils import normalize_dimensions

    pb = HpProblem()
    for name, decl in case["decls"]:
        if isinstance(decl, dict):
            lo, hi = decl["range"]
            pb.add_hyperparameter((lo, hi, "log-uniform") if decl.get("log") else (lo, hi), name)
        else:
            pb.add_hyperparameter(list(decl), name)
    if case.get("cond"):   # a conditional hyperparameter: the Space then carries the ConfigSpace (mixed population: conditional + unconditional)
        import ConfigSpace as cs

        child, parent, k = case["cond"]
        php = pb.space[parent]
        vals = list(getattr(php, "choices", None) or php.sequence)
        pb.add_condition(cs.EqualsCondition(pb.space[child], php, vals[k % len(vals)]))
    space = convert_to_skopt_space(pb.space, surrogate_model=case["surrogate"])
    if case.get("normalize"):
        space.dimensions = normalize_dimensions(space.dimensions)
    dims = [describe_dim(dm) for dm in space.dimensions]
    names = space.dimension_names
    by = dict(zip(names, dims))
    X = [[select(by[n], row[n]) for n in names] for row in case["X"]]
    r = run_space(dims, X, space=space)
    if case.get("cond") and r.get("ok"):
        r = dict(r, desc=list(r["desc"]) + ["conditional"])
    return r


def select(d, sel):
    """a point of the dimension AS CREATED (ConfigSpace rounds float bounds to ~13 significant digits, so points are
    chosen relative to the created bounds, not the declared ones)"""
    if d["kind"] == "cat":
        return d["cats"][sel[2] % len(d["cats"])]
    lo, hi = d["lo"], d["hi"]
    isint = d["kind"] == "int"
    if sel[0] == "lo":
        return lo
    if sel[0] == "hi":
        return hi
    if sel[0] == "lo+":
        return min(lo + 1, hi) if isint else min(math.nextafter(lo, math.inf), hi)
    if sel[0] == "hi-":
        return max(hi - 1, lo) if isint else max(math.nextafter(hi, -math.inf), lo)
    u = sel[1]
    if d["prior"] == "log-uniform":
        v = math.exp(math.log(lo) + u * (math.log(hi) - math.log(lo)))
    else:
        v = lo + u * (hi - lo)
    if isint:
        v = int(round(v))
    return min(max(v, lo), hi)


# ----------------------------------------------------------------------------------------------- generators
def near(rng, v, direction):
    return math.nextafter(v, math.inf if direction > 0 else -math.inf)


def gen_real(rng, tr=None, prior=None):
    prior = prior or rng.choice(["uniform", "log-uniform"])
    tr = tr or rng.choice(["identity", "normalize"])
    base = 10
    style = rng.random()
    if prior == "log-uniform":
        base = rng.choice([10, 10, 10, 2, 3])
        if style < 0.3:  # powers of the base
            k = rng.randint(-20, 18)
            lo, hi = float(base) ** k, float(base) ** (k + rng.randint(1, 12))
        elif style < 0.45:  # huge / tiny
            lo = 10.0 ** rng.uniform(-300, 290)
            hi = min(lo * 10.0 ** rng.uniform(0.001, 300), 1e300)
        elif style < 0.5:  # adjacent floats / very narrow
            lo = 10.0 ** rng.uniform(-5, 5)
            hi = lo
            for _ in range(rng.choice([1, 2, 5, 1000])):
                hi = near(rng, hi, 1)
        else:
            lo = 10.0 ** rng.uniform(-6, 3)
            hi = lo * 10.0 ** rng.uniform(0.01, 4)
    else:
        if style < 0.2:
            lo = rng.choice([-1.0, 0.0, 1.0, -10.0, 0.5, -0.5]) * 10.0 ** rng.randint(-3, 3)
            hi = lo + rng.choice([1.0, 2.0, 0.1, 10.0, 3.0]) * 10.0 ** rng.randint(-3, 3)
        elif style < 0.35:  # huge / tiny magnitudes, negative ranges
            lo = rng.choice([-1, 1]) * 10.0 ** rng.uniform(-300, 299)
            hi = lo + abs(lo) * 10.0 ** rng.uniform(-10, 1) if rng.random() < 0.5 else rng.choice([1, 1, -1]) * 10.0 ** rng.uniform(-300, 300)
            if hi < lo:
                lo, hi = hi, lo
            hi = min(hi, 1e300)
            lo = max(lo, -1e300)
        elif style < 0.4:
            lo = rng.choice([-1, 1]) * 10.0 ** rng.uniform(-5, 5)
            hi = lo
            for _ in range(rng.choice([1, 2, 5, 1000])):
                hi = near(rng, hi, 1)
        else:
            lo = rng.uniform(-1, 1) * 10.0 ** rng.uniform(-6, 6)
            hi = lo + 10.0 ** rng.uniform(-6, 6)
    if not (hi > lo):
        hi = near(rng, lo, 1)
    return dict(kind="real", lo=lo, hi=hi, prior=prior, base=base, tr=tr, dtype=rng.choice(["float", "float", "floatstr", "np.float64"]))


def real_point(rng, d):
    lo, hi = d["lo"], d["hi"]
    if rng.random() < 0.12:
        # a small but not ulp-sized margin from a bound (1e-6 .. 1e-13 of the width / of the value): equal to the bound for
        # np.isclose-style comparisons, a different point for the property
        eps = 10.0 ** -rng.randint(6, 13)
        if d["prior"] == "log-uniform":
            v = lo * (1 + eps) if rng.random() < 0.5 else hi * (1 - eps)
        else:
            w = hi - lo if math.isfinite(hi - lo) else max(abs(lo), abs(hi))
            v = rng.choice([lo + w * eps, hi - w * eps, lo + abs(lo) * eps, hi - abs(hi) * eps])
        return min(max(v, lo), hi)
    c = rng.random()
    if c < 0.2:
        return lo
    if c < 0.4:
        return hi
    if c < 0.5:
        return min(near(rng, lo, 1), hi)
    if c < 0.6:
        return max(near(rng, hi, -1), lo)
    if d["prior"] == "log-uniform":
        if c < 0.75:  # a power of the base inside the range
            b = float(d["base"])
            kl, kh = math.ceil(math.log(lo, b)), math.floor(math.log(hi, b))
            if kl <= kh:
                v = b ** rng.randint(kl, kh)
                if lo <= v <= hi:
                    return v
        v = math.exp(rng.uniform(math.log(lo), math.log(hi)))
    else:
        if c < 0.65 and lo <= 0.0 <= hi:
            return 0.0 if c < 0.63 else -0.0
        if c < 0.7:
            v = lo / 2 + hi / 2
        else:
            v = lo + (hi - lo) * rng.random() if math.isfinite(hi - lo) else rng.choice([lo, hi])
    return min(max(v, lo), hi)


def gen_int(rng, tr=None, prior=None):
    prior = prior or rng.choice(["uniform", "uniform", "log-uniform"])
    tr = tr or rng.choice(["identity", "normalize"])
    base = 10
    style = rng.random()
    if prior == "log-uniform":
        base = rng.choice([10, 10, 2, 3])
        if style < 0.35:
            k = rng.randint(0, 8 if base == 10 else 20)
            lo, hi = base ** k, base ** (k + rng.randint(1, 4 if base == 10 else 19))
        elif style < 0.5:
            lo = rng.randint(1, 2 ** rng.randint(1, 39))
            hi = rng.randint(lo + 1, 2 ** 40)
        else:
            lo = rng.randint(1, 100)
            hi = lo + rng.randint(1, 10 ** rng.randint(1, 6))
        hi = min(hi, 2 ** 40)
    else:
        if style < 0.15:
            lo = rng.randint(-2 ** 47, 2 ** 47 - 1)
            hi = rng.randint(lo + 1, 2 ** 47)
        elif style < 0.3:
            lo = rng.choice([-1, 1]) * rng.randint(0, 10 ** rng.randint(1, 12))
            hi = lo + rng.randint(1, 3)
        else:
            lo = rng.randint(-1000, 1000)
            hi = lo + rng.randint(1, 10 ** rng.randint(1, 5))
    return dict(kind="int", lo=lo, hi=hi, prior=prior, base=base, tr=tr, dtype=rng.choice(["np.int64", "np.int64", "int", "int64str"]))


def int_point(rng, d):
    lo, hi = d["lo"], d["hi"]
    c = rng.random()
    if c < 0.2:
        return lo
    if c < 0.4:
        return hi
    if c < 0.5:
        return min(lo + 1, hi)
    if c < 0.6:
        return max(hi - 1, lo)
    if d["prior"] == "log-uniform":
        if c < 0.75:
            b = d["base"]
            ks = [b ** k for k in range(0, 41) if lo <= b ** k <= hi]
            if ks:
                return rng.choice(ks)
        return min(max(int(round(math.exp(rng.uniform(math.log(lo), math.log(hi))))), lo), hi)
    return rng.randint(lo, hi)


WORDS = ["relu", "tanh", "sigmoid", "adam", "sgd", "a", "b", "B", "Z", "aa", "10", "9", "x_1", "", " ", "None", "True", "é", "zeta", "Alpha"]


def gen_cat(rng, tr=None, ck=None):
    ck = ck or rng.choice(["str", "str", "int", "float", "bool"])
    if ck == "bool":
        cats = rng.choice([[True, False], [False, True], [True], [False]])
    else:
        n = rng.choice([1, 2, 2, 3, 3, 4, 5, 8, 12])
        if ck == "str":
            cats = rng.sample(WORDS, n)
        elif ck == "int":
            span = rng.choice([5, 20, 1000, 2 ** 40])
            cats = rng.sample(range(-span, span + 1), min(n, 2 * span + 1)) if span < 2 ** 30 else [rng.randint(-span, span) for _ in range(n)]
            cats = list(dict.fromkeys(cats))
        else:
            cats = list(dict.fromkeys(rng.choice([rng.uniform(-10, 10), rng.randint(-8, 8) / 4, 10.0 ** rng.uniform(-300, 300), float(rng.randint(-5, 5))]) for _ in range(n)))
    allowed = ["label", "onehot", "normalize"] + (["identity"] if ck in ("int", "float") else [])
    if tr is None or tr not in allowed:
        tr = rng.choice(allowed + (["identity"] if "identity" in allowed else []))
    return dict(kind="cat", cats=cats, ck=ck, tr=tr)


def gen_dim(rng):
    c = rng.random()
    if c < 0.35:
        return gen_real(rng)
    if c < 0.65:
        return gen_int(rng)
    return gen_cat(rng)


def point(rng, d):
    if d["kind"] == "real":
        return real_point(rng, d)
    if d["kind"] == "int":
        return int_point(rng, d)
    return rng.choice(d["cats"])


def gen_rows(rng, dims, n):
    return [[point(rng, d) for d in dims] for _ in range(n)]


def gen_dims_stream(count):
    def gen(rng, tier):
        k = count if tier != "search" else count * 3
        combos = ([("real", p, t) for p in ("uniform", "log-uniform") for t in ("identity", "normalize")]
                  + [("int", p, t) for p in ("uniform", "log-uniform") for t in ("identity", "normalize")]
                  + [("cat", ck, t) for ck in ("str", "int", "float", "bool") for t in ("label", "onehot", "normalize", "identity") if t != "identity" or ck in ("int", "float")])
        for i in range(k):
            kind, a, b = combos[i % len(combos)]
            d = gen_real(rng, b, a) if kind == "real" else gen_int(rng, b, a) if kind == "int" else gen_cat(rng, b, a)
            n = rng.choice([1, 1, 2, 3, 5, 10, 25, 50]) if tier != "search" else rng.randint(1, 6)
            X = gen_rows(rng, [d], n)
            if d["kind"] != "cat" and i % 3 == 0:  # both ends and their neighbours, always
                X = ([[d["lo"]], [d["hi"]]] + X)[:50]
            yield dict(dims=[d], X=X, variant=rng.choice([None, None, "np", "intreal"]))
    return gen


def gen_spaces_stream(count):
    def gen(rng, tier):
        k = count if tier != "search" else count * 3
        for i in range(k):
            nd = rng.randint(1, 8) if tier != "search" else rng.randint(1, 3)
            dims = [gen_dim(rng) for _ in range(nd)]
            n = rng.choice([1, 2, 3, 5, 10, 20, 50]) if tier != "search" else rng.randint(1, 4)
            yield dict(dims=dims, X=gen_rows(rng, dims, n), variant=rng.choice([None, None, "np", "intreal"]))
    return gen


def gen_problem_stream(count):
    def gen(rng, tier):
        for i in range(count):
            nd = rng.randint(1, 6)
            decls = []
            for j in range(nd):
                name = "%s%d" % (rng.choice("xyzab"), j)
                c = rng.random()
                if c < 0.3:
                    log = rng.random() < 0.5
                    lo = 10.0 ** rng.uniform(-6, 4) * (1 if log or rng.random() < 0.6 else -1)
                    hi = lo * 10.0 ** rng.uniform(0.01, 4) if log else lo + 10.0 ** rng.uniform(-3, 5)
                    if rng.random() < 0.3:
                        lo, hi = (10.0 ** rng.randint(-8, 2), 10.0 ** rng.randint(3, 8)) if log else (float(rng.randint(-5, 0)), float(rng.randint(1, 10)))
                    decls.append([name, dict(range=[lo, hi], log=log)])
                elif c < 0.55:
                    d = gen_int(rng, "identity")
                    if d["base"] != 10 or abs(d["lo"]) > 2 ** 40 or abs(d["hi"]) > 2 ** 40:
                        d = dict(kind="int", lo=1, hi=1000, prior=d["prior"], base=10, tr="identity")
                    decls.append([name, dict(range=[d["lo"], d["hi"]], log=d["prior"] == "log-uniform")])
                else:
                    d = gen_cat(rng, "label")
                    if len(d["cats"]) < 2 or d["ck"] == "float" and any(abs(c) > 1e100 or 0 < abs(c) < 1e-100 for c in d["cats"]):
                        d = dict(kind="cat", cats=["u", "v", "w"], ck="str", tr="label")
                    decls.append([name, d["cats"]])
            n = rng.choice([1, 2, 5, 20])
            X = []
            for _ in range(n):
                row = {}
                for name, _d in decls:
                    c = rng.random()
                    row[name] = ["lo" if c < 0.2 else "hi" if c < 0.4 else "lo+" if c < 0.5 else "hi-" if c < 0.6 else "frac", rng.random(), rng.randint(0, 11)]
                X.append(row)
            cond = None
            parents = [nm for nm, dc in decls if isinstance(dc, list) and len(dc) >= 2]
            if parents and len(decls) >= 2 and rng.random() < 0.3:
                parent = rng.choice(parents)
                cond = [rng.choice([nm for nm, _ in decls if nm != parent]), parent, rng.randint(0, 11)]
            yield dict(decls=decls, surrogate=rng.choice(["RF", "ET", "GP", None]), normalize=rng.random() < 0.5, X=X, cond=cond)
    return gen


# ----------------------------------------------------------------------------------------------- shrinkers
def shrink_space(case):
    dims, X = case["dims"], case["X"]
    for i in range(len(X)):
        if len(X) > 1:
            yield dict(case, dims=dims, X=X[:i] + X[i + 1:])
    if case.get("variant"):
        yield dict(case, variant=None)
    for j in range(len(dims)):
        if len(dims) > 1:
            yield dict(case, dims=dims[:j] + dims[j + 1:], X=[r[:j] + r[j + 1:] for r in X])
    for j, d in enumerate(dims):
        if d["kind"] == "cat" and len(d["cats"]) > 1:
            used = {r[j] for r in X}
            for c in d["cats"]:
                if c not in used:
                    yield dict(case, dims=dims[:j] + [dict(d, cats=[k for k in d["cats"] if k != c])] + dims[j + 1:], X=X)
                    break


def shrink_problem(case):
    X = case["X"]
    for i in range(len(X)):
        if len(X) > 1:
            yield dict(case, X=X[:i] + X[i + 1:])
    decls = case["decls"]
    for j in range(len(decls)):
        if len(decls) > 1:
            name = decls[j][0]
            yield dict(case, decls=decls[:j] + decls[j + 1:], X=[{k: v for k, v in r.items() if k != name} for r in X],
                       cond=None if case.get("cond") and name in case["cond"][:2] else case.get("cond"))
    if case.get("cond"):
        yield dict(case, cond=None)

# ----------------------------------------------------------------------------------------------- respace: one Space object, many configurations
def allowed_tr(d):
    if d["kind"] != "cat":
        return ["identity", "normalize"]
    return ["label", "onehot", "normalize"] + (["identity"] if d["ck"] in ("int", "float") else [])


def apply_step(space, dims, step):
    """performs one switch on the live Space object; returns the description of the configuration it must now have"""
    from deephyper.skopt.space import Categorical, Integer, Real, Space
    from deephyper.skopt.utils import normalize_dimensions

    op = step[0]
    if op == "space_all":          # Space.set_transformer("normalize")
        space.set_transformer(step[1])
        return [dict(d, tr=step[1]) for d in dims]
    if op == "space_list":         # Space.set_transformer([...])
        space.set_transformer(list(step[1]))
        return [dict(d, tr=t) for d, t in zip(dims, step[1])]
    if op == "dim":                # Dimension.set_transformer - the route normalize_dimensions takes
        space.dimensions[step[1]].set_transformer(step[2])
        return [dict(d, tr=step[2]) if j == step[1] else d for j, d in enumerate(dims)]
    if op == "normalize_dimensions":   # what Optimizer.__init__ does for GP surrogates
        space.dimensions = normalize_dimensions(space.dimensions)
        return [dict(d, tr="normalize") for d in dims]
    if op == "by_type":            # Space.set_transformer_by_type
        cls = {"real": Real, "int": Integer, "cat": Categorical}[step[1]]
        space.set_transformer_by_type(step[2], cls)
        return [dict(d, tr=step[2]) if d["kind"] == step[1] else d for d in dims]
    if op == "noop":               # nothing switched: the same object is simply used again (other rows)
        return dims
    if op == "shared":             # a SECOND Space over the same Dimension objects is switched: the objects are shared, both follow
        other = Space(list(space.dimensions))
        other.set_transformer(list(step[1]))
        other.inverse_transform(other.transform(step[2]))
        return [dict(d, tr=t) for d, t in zip(dims, step[1])]
    if op == "reassign":           # space.dimensions = [new Dimension objects]
        new = [dict(d, tr=t) for d, t in zip(dims, step[1])]
        space.dimensions = [make_dim(d) for d in new]
        return new
    raise ValueError(op)


def shorthand(d):
    """the tuple / list notation check_dimension accepts, or None when the notation cannot express the dimension"""
    if d["kind"] in ("real", "int") and d.get("dtype") in (None, "float", "np.int64"):
        if d["prior"] == "uniform":
            return (d["lo"], d["hi"]) if d["tr"] == "identity" else None
        if d["tr"] == "identity":
            return (d["lo"], d["hi"], "log-uniform") if d["base"] == 10 else (d["lo"], d["hi"], "log-uniform", d["base"])
        return None
    if d["kind"] == "cat" and d["tr"] == "onehot":
        cats = d["cats"]
        if d["ck"] in ("str", "bool") and len(cats) != 3 or d["ck"] in ("int", "float") and len(cats) >= 5:
            return list(cats)
    return None


TRCODE = {"identity": 0, "label": 1, "onehot": 2, "normalize": 3}
KINDCODE = {"real": 0, "int": 1, "cat": 2}


def enc_switch(step):
    """the step as a [switch] of Model.v (None: the step does not touch the configuration)"""
    op = step[0]
    if op == "space_all":
        return [0, TRCODE[step[1]]]
    if op == "normalize_dimensions":
        return [0, TRCODE["normalize"]]
    if op in ("space_list", "shared", "reassign"):
        return [1, [TRCODE[t] for t in step[1]]]
    if op == "dim":
        return [2, step[1], TRCODE[step[2]]]
    if op == "by_type":
        return [3, KINDCODE[step[1]], TRCODE[step[2]]]
    return None


def check_respace(case):
    import copy

    from deephyper.skopt.space import Space

    dims = [dict(d) for d in case["dims"]]
    X = case["X"]
    ctor = "objects"
    if case.get("shorthand") and all(shorthand(d) is not None for d in dims):
        ctor = "shorthand"
        space = Space([shorthand(d) for d in dims])
        got = [describe_dim(dm) for dm in space.dimensions]
        want = [{k: v for k, v in d.items() if k != "dtype"} for d in dims]
        if got != want:
            return dict(res_base(dims, X), ok=False, kind="corr", clause="shorthand_dims", detail=dict(got=got, want=want))
    else:
        space = Space([make_dim(d) for d in dims])
    ops = []
    out = None
    msp0, sw = [enc_dim(d) for d in dims], []
    if case.get("inv_first"):
        # the very first call on the object is inverse_transform (lazily created state must not need a transform first)
        twin = Space([make_dim(d) for d in dims])
        Xt0 = twin.transform([list(r) for r in X])
        if repr(space.inverse_transform(Xt0)) != repr(twin.inverse_transform(Xt0)):
            return dict(res_base(dims, X), ok=False, clause="repeat_call", sig={"clause": "repeat_call", "after": "inv_first"}, detail=dict(which="inverse_transform first"))
    for k in range(len(case["steps"]) + 1):
        if k > 0:
            step = case["steps"][k - 1]
            if step[0] == "deepcopy":      # the optimizer / a worker continues with a copy of the object
                space = copy.deepcopy(space)
            else:
                dims = apply_step(space, dims, step)
            ops.append(step[0])
            if enc_switch(step) is not None:
                sw.append(enc_switch(step))
            want = model().call(F_SWITCH, [msp0, sw])     # Model.run_switches: the configuration the space must have now
            if [TRCODE[t] for t in space.get_transformer()] != want or [TRCODE[d["tr"]] for d in dims] != want:
                r = res_base(dims, X)
                return dict(r, ok=False, kind="corr", clause="get_transformer", sig={"after": step[0]}, detail=dict(step=k, impl=list(space.get_transformer()), model=want))
        # a different, non-empty selection of the rows at every step (1 row, all rows, a window)
        lo, n = case["rows"][k % len(case["rows"])]
        Xk = X[lo:lo + n] or X[:1]
        r = run_space(dims, Xk, space=space, dim_level=True, variant=case.get("variant"))
        if not r["ok"]:
            r["sig"] = dict(r.get("sig") or {}, after=(ops[-1] if ops else "fresh"), reused=k > 0)
            r["detail"] = dict(step=k, ops=ops, config=[d["tr"] for d in dims], inner=r.get("detail"))
            return r
        out = out or r
    out = dict(out)
    out["desc"] = sorted(set(out["desc"])) + sorted(set("op=" + o for o in ops)) + ["steps=%d" % len(case["steps"]), "ctor=" + ctor] + (["inv_first"] if case.get("inv_first") else [])
    out["nontrivial"] = len(ops) > 0
    return out


def gen_step(rng, dims):
    c0 = rng.random()
    if c0 < 0.1:
        return ["noop"]
    if c0 < 0.18:
        return ["deepcopy"]
    if c0 < 0.28:
        return ["shared", [rng.choice(allowed_tr(d)) for d in dims], gen_rows(rng, dims, rng.randint(1, 3))]
    c = rng.random()
    if c < 0.3:
        j = rng.randrange(len(dims))
        return ["dim", j, rng.choice(allowed_tr(dims[j]))]
    if c < 0.42:
        return ["normalize_dimensions"]
    if c < 0.55:
        common = [t for t in ("normalize", "identity") if all(t in allowed_tr(d) for d in dims)]
        return ["space_all", rng.choice(common)]
    if c < 0.7:
        return ["space_list", [rng.choice(allowed_tr(d)) for d in dims]]
    if c < 0.88:
        kind = rng.choice(sorted(set(d["kind"] for d in dims)))
        common = [t for t in ("normalize", "identity", "label", "onehot") if all(t in allowed_tr(d) for d in dims if d["kind"] == kind)]
        return ["by_type", kind, rng.choice(common)]
    return ["reassign", [rng.choice(allowed_tr(d)) for d in dims]]


def gen_respace_stream(count):
    def gen(rng, tier):
        k = count if tier != "search" else count * 3
        for i in range(k):
            nd = rng.randint(1, 6) if tier != "search" else rng.randint(1, 3)
            dims = [gen_dim(rng) for _ in range(nd)]
            if i % 3 == 0:  # a categorical whose width changes with the transform, somewhere in the space
                c = gen_cat(rng, rng.choice(["onehot", "onehot", "label", "normalize"]), rng.choice(["str", "int", "float"]))
                while len(c["cats"]) < 3:
                    c = gen_cat(rng, c["tr"], c["ck"])
                dims[rng.randrange(nd)] = c
            if i % 5 == 1:  # expressible in the tuple / list notation of check_dimension: the other way to build a Space
                dims = [dict(d, tr="onehot" if d["kind"] == "cat" else "identity", dtype="float" if d["kind"] == "real" else "np.int64") if d["kind"] != "cat" or d["ck"] in ("str", "bool") and len(d["cats"]) != 3 else gen_real(rng, "identity") for d in dims]
                dims = [dict(d, dtype="float") if d["kind"] == "real" else d for d in dims]
            n = rng.choice([1, 2, 3, 5, 10])
            X = gen_rows(rng, dims, n)
            steps = [gen_step(rng, dims) for _ in range(rng.randint(1, 5))]
            rows = [[rng.randrange(n), rng.randint(1, n)] for _ in range(3)] + [[0, n]]
            rng.shuffle(rows)
            yield dict(dims=dims, X=X, steps=steps, rows=rows, variant=rng.choice([None, None, "np"]), inv_first=rng.random() < 0.2, shorthand=True)
    return gen


def shrink_respace(case):
    dims, X, steps, rows = case["dims"], case["X"], case["steps"], case["rows"]
    for i in range(len(steps)):
        yield dict(case, steps=steps[:i] + steps[i + 1:])
    if rows != [[0, len(X)]]:
        yield dict(case, rows=[[0, len(X)]])
    for i in range(len(X)):
        if len(X) > 1:
            yield dict(case, X=X[:i] + X[i + 1:], rows=[[0, len(X) - 1]])
    for j in range(len(dims)):
        if len(dims) > 1:
            st = []
            for s_ in steps:
                if s_[0] == "dim":
                    if s_[1] == j:
                        continue
                    st.append(["dim", s_[1] - (1 if s_[1] > j else 0), s_[2]])
                elif s_[0] in ("space_list", "reassign"):
                    st.append([s_[0], s_[1][:j] + s_[1][j + 1:]])
                elif s_[0] == "shared":
                    st.append([s_[0], s_[1][:j] + s_[1][j + 1:], [r[:j] + r[j + 1:] for r in s_[2]]])
                elif s_[0] == "by_type" and not any(d["kind"] == s_[1] for k_, d in enumerate(dims) if k_ != j):
                    continue
                else:
                    st.append(s_)
            yield dict(case, dims=dims[:j] + dims[j + 1:], X=[r[:j] + r[j + 1:] for r in X], steps=st, rows=rows)


# ----------------------------------------------------------------------------------------------- intspaces: integral warped columns only
BIG = 2 ** 62
SPECIAL_INTS = [2 ** 53 + 1, 2 ** 53 - 1, 2 ** 53, 2 ** 53 + 2, -(2 ** 53) - 1, BIG - 1, -BIG, BIG - 2, 1 - BIG, 2 ** 61 + 1, 2 ** 54 + 1, 10 ** 17 + 1, 0, -1]


def gen_bigint_dim(rng):
    c = rng.random()
    if c < 0.45:
        st = rng.random()
        if st < 0.4:
            lo, hi = -BIG, BIG - 1
        elif st < 0.7:
            lo = rng.choice([0, -(2 ** 53) - 5, 2 ** 53 - 3, -BIG, 2 ** 60])
            hi = rng.choice([v for v in (2 ** 53 + 5, BIG - 1, 2 ** 61 + 3, 2 ** 60 + 9) if v > lo])
        else:
            lo = rng.randint(-BIG, BIG - 2)
            hi = rng.randint(lo + 1, BIG - 1)
        return dict(kind="int", lo=lo, hi=hi, prior="uniform", base=10, tr="identity", dtype=rng.choice(["np.int64", "np.int64", "int", "int64str"]))
    if c < 0.8:
        n = rng.choice([1, 2, 3, 4, 6])
        pool = SPECIAL_INTS + [rng.randint(-BIG, BIG - 1) for _ in range(4)] + [rng.randint(-9, 9) for _ in range(2)]
        cats = rng.sample(list(dict.fromkeys(pool)), n)
        return dict(kind="cat", cats=cats, ck="int", tr=rng.choice(["identity", "identity", "label", "onehot"]))
    d = gen_cat(rng, rng.choice(["label", "onehot"]), rng.choice(["str", "bool"]))
    return d


def bigint_point(rng, d):
    if d["kind"] == "int":
        inside = [v for v in SPECIAL_INTS + [d["lo"], d["hi"], d["lo"] + 1, d["hi"] - 1] if d["lo"] <= v <= d["hi"]]
        return rng.choice(inside) if rng.random() < 0.8 else rng.randint(d["lo"], d["hi"])
    return rng.choice(d["cats"])


def gen_intspaces_stream(count):
    def gen(rng, tier):
        for i in range(count):
            nd = rng.choice([1, 1, 2, 3, 4, 6])
            dims = [gen_bigint_dim(rng) for _ in range(nd)]
            if i % 4 == 0 and not any(d["kind"] == "int" or d["ck"] == "int" for d in dims):
                dims[0] = gen_bigint_dim(rng)
            n = rng.choice([1, 2, 3, 5, 12])
            X = [[bigint_point(rng, d) for d in dims] for _ in range(n)]
            case = dict(dims=dims, X=X, variant=rng.choice([None, None, "np"]))
            if i % 3 == 0:  # the same object through switches that keep every warped column integral
                steps = []
                cat_js = [j for j, d in enumerate(dims) if d["kind"] == "cat"]
                for _ in range(rng.randint(1, 4)):
                    c = rng.random()
                    if cat_js and c < 0.6:
                        j = rng.choice(cat_js)
                        steps.append(["dim", j, rng.choice(["label", "onehot"] + (["identity"] if dims[j]["ck"] == "int" else []))])
                    elif cat_js and c < 0.75:
                        steps.append(["by_type", "cat", rng.choice(["label", "onehot"])])
                    else:
                        steps.append(rng.choice([["noop"], ["deepcopy"]]))
                case.update(steps=steps, rows=[[0, n], [rng.randrange(n), 1]])
            yield case
    return gen


def check_intspace(case):
    return check_respace(case) if "steps" in case else check_space(case)


def shrink_intspace(case):
    return shrink_respace(case) if "steps" in case else shrink_space(case)


def streams(tier):
    th = tier == "thorough"
    return [
        Stream("dims", gen_dims_stream(60000 if th else 1800), check_space, shrink_space, timeout=60),
        Stream("spaces", gen_spaces_stream(36000 if th else 1000), check_space, shrink_space, timeout=60),
        Stream("problem", gen_problem_stream(4000 if th else 200), check_problem, shrink_problem, timeout=120),
        Stream("respace", gen_respace_stream(8000 if th else 400), check_respace, shrink_respace, timeout=120),
        Stream("intspaces", gen_intspaces_stream(8000 if th else 400), check_intspace, shrink_intspace, timeout=120),
    ]
