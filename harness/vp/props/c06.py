"""C06 - Failed evaluations are contained: recorded as failures, never fatal.

Tie
 (a) translator facts (Generated/Facts_C06.v, consumed by theorem C06_markers): the failure marker OBJECTIVE_VALUE_FAILURE,
     Evaluator.FAIL_RETURN_VALUE, the literals of CBO._tell (prefix test, told marker, "ignore"), MAP_filter_failures, the
     option names Optimizer._filter_failures imputes for, every string the optimizer compares told values with.
 (b) functional correspondence of the pipeline pieces with the extracted model, exact on dyadic values:
     on_done        Evaluator._on_done on constructed HPOJob objects, every return form          (model 601, oracle 602)
     cbo_tell       CBO._tell with a SPY optimizer recording what reaches Optimizer.tell         (model 603)
     filter_failures Optimizer._filter_failures, scalars and vectors                             (model 604, oracle 607)
     optimizer_tell Optimizer.tell with a SPY base estimator recording the y it is fitted on, _n_initial_points after
                    every tell, the first constant-liar lie of a 2-point ask                     (model 605/611, oracle 606)
 (c) search level: real searches whose run-function replays a success/failure pattern; the extracted checker ok_search
     (608) decides on the observed outcome: search() returned, every failed evaluation's row has failure strings in its
     objective cell(s), every proposal is inside the space, the proposal sequence is identical for two labelings of the
     pattern; plus correspondence of the optimizer's final state (yi, _n_initial_points) with the model's run (610).
"""
import ast
import inspect
import math
import os
import tempfile
from fractions import Fraction

from ..driver import model
from ..runner import Stream
from .. import srcfacts

PROPERTY = "C06"
LEVEL = "proof"
FACTS = ["objective_value_failure", "fail_return_value", "cbo_tell_prefixes", "cbo_tell_told", "cbo_ignore_literals",
         "map_filter_failures", "opt_impute_names", "opt_mean_literals", "opt_failure_literals", "cbo_default_filter_failures",
         "fit_surrogate_told", "fit_surrogate_policy_literals"]
TRUSTED = [
    "the objective scaler and the multi-objective scalarisation map finite values to finite values and keep the length "
    "(Section variables sc/scal of the model; the correspondence uses objective_scaler='identity' and the Linear scalarisation "
    "with dyadic weights, for which the model has concrete instances)",
    "the surrogate fit succeeds on finite y (fit_ok); sklearn estimators reject NaN/inf/strings in y",
    "np.mean / np.max / np.min / np.dot / np.negative on small dyadic values are exact except for the division by a count in a mean (compared within 2^-50 relative; everything dyadic is compared exactly)",
    "pandas.read_csv keeps a cell that starts with 'F' as a string (objective cells of the returned table)",
]
ASSUMPTIONS = [
    "string objectives are non-empty; the run-function returns one fixed number of objectives",
    "a string that does not start with 'F' and a tuple containing a failure string are outside the statement (modelled, not generated at search level)",
    "max_failures (default 100) is larger than every generated pattern; with n_initial_points >= 1 ExhaustedFailures is unreachable (theorem C06_no_exhaustion)",
    "process/thread evaluators are not used: the serial evaluator runs the replaying run-function",
    "with num_workers = 2 the two labelings are not compared proposal by proposal (jobs finishing in one gather come back in the iteration order of a "
    "set, which is C07's subject); returning, marked rows and bounds are checked for both labelings, and the optimizer state against the model's run "
    "over the batches actually told",
    "peer_searches never returns a scalar objective of exactly 0.0 (a peer skips a job whose stored output is falsy and search() then never ends: "
    "a hang outside C06, reported)",
    "update_prior=True is not exercised (its KDE refit raises on a single observation whatever the objectives are; the mechanism is marked 'to be removed' in the source)",
    "multi-point asks other than the constant liar (qUCB, topk, boltzmann) and acq functions with per-second costs ('ps') are not modelled",
]
RULE = ("on_done: k in 1..3 x return form {raw, dict, dict+metadata, output+metadata} x scalar/tuple/list x number flavour {py, np64, np32} x "
        "element kind {finite dyadic, nan, +inf, -inf, 'F...' string, other string}; cbo_tell/filter_failures/optimizer_tell: batches of told values "
        "('F', finite dyadic scalars or vectors) x policy x max_failures x n_initial_points x weights; searches: class {CBO, RegularizedEvolution, "
        "RandomSearch} x surrogate x filter_failures x single/multi x workers {1,2} x pattern (length <= 10; failures first / only / mixed; kinds "
        "F-string, nan, +inf, -inf, nan inside a tuple) x two labelings; non-trivial = the case contains at least one failure")

F_ONDONE, F_OKROW, F_CBOTELL, F_FILTER, F_OPTRUN, F_OKFIT, F_OKLIE, F_OKSEARCH, F_REGEVO, F_RUN, F_ASKLIE, F_REPORTED = range(601, 613)
F_RESTART = 613
SEARCH_CLAUSE = {1: "exception", 2: "failed_row_not_marked", 3: "proposal_out_of_bounds", 4: "label_changed_proposals"}


# ------------------------------------------------------------------------------------------------------------------
# translator facts
# ------------------------------------------------------------------------------------------------------------------
class _Unrecognised(Exception):
    pass


def _find_func(tree, cls, name):
    for node in ast.walk(tree):
        if isinstance(node, ast.ClassDef) and node.name == cls:
            for b in node.body:
                if isinstance(b, ast.FunctionDef) and b.name == name:
                    return b
    raise _Unrecognised("no %s.%s" % (cls, name))


def _lit(node, mod):
    """A string literal, or a name / attribute that resolves to a string in the module; None otherwise."""
    if isinstance(node, ast.Constant) and isinstance(node.value, str):
        return node.value
    if isinstance(node, ast.Name) and isinstance(getattr(mod, node.id, None), str):
        return getattr(mod, node.id)
    if isinstance(node, ast.Attribute) and isinstance(node.value, ast.Name):
        v = getattr(getattr(mod, node.value.id, None), node.attr, None)
        if isinstance(v, str):
            return v
    return None


def _mentions(node, text):
    return any(isinstance(n, ast.Constant) and n.value == text for n in ast.walk(node)) or \
        any(isinstance(n, ast.Attribute) and n.attr == text for n in ast.walk(node))


def _compares(fn):
    for node in ast.walk(fn):
        if isinstance(node, ast.Compare) and len(node.ops) == 1:
            yield node.left, node.ops[0], node.comparators[0]


def facts(repo):
    import deephyper.hpo._cbo as cbo
    import deephyper.skopt.optimizer.optimizer as optm
    from deephyper.evaluator import Evaluator

    info = {}
    try:
        marker = optm.OBJECTIVE_VALUE_FAILURE
        frv = Evaluator.FAIL_RETURN_VALUE
        mapff = sorted(cbo.MAP_filter_failures.items())
        default_ff = inspect.signature(cbo.CBO.__init__).parameters["filter_failures"].default
        if not (isinstance(marker, str) and isinstance(frv, str) and isinstance(default_ff, str) and all(isinstance(k, str) and isinstance(v, str) for k, v in mapff)):
            raise _Unrecognised("marker / table values are not strings")
        # CBO._tell
        tree = ast.parse(open(os.path.join(repo, "src", "deephyper", "hpo", "_cbo.py")).read())
        fn = _find_func(tree, "CBO", "_tell")
        prefixes, ignore, told = [], [], []
        for left, op, right in _compares(fn):
            for a, b in ((left, right), (right, left)):
                s = _lit(a, cbo)
                if s is None:
                    continue
                if isinstance(b, ast.Subscript) and isinstance(b.slice, ast.Constant) and b.slice.value == 0 and isinstance(op, ast.Eq):
                    prefixes.append(s)
                elif _mentions(b, "filter_failures") and isinstance(op, ast.Eq):
                    ignore.append(s)
                elif isinstance(b, ast.Call) and isinstance(b.func, ast.Attribute) and b.func.attr == "startswith":
                    raise _Unrecognised("prefix test rewritten")  # handled below
                else:
                    raise _Unrecognised("CBO._tell compares a string in an unknown way: %s" % ast.dump(left)[:80])
        for node in ast.walk(fn):
            if isinstance(node, ast.Call) and isinstance(node.func, ast.Attribute):
                if node.func.attr == "startswith" and node.args and _lit(node.args[0], cbo) is not None:
                    prefixes.append(_lit(node.args[0], cbo))
                if node.func.attr == "append" and isinstance(node.func.value, ast.Name) and node.func.value.id == "opt_y" and node.args:
                    s = _lit(node.args[0], cbo)
                    if s is not None:
                        told.append(s)
        if not prefixes or not ignore or not told:
            raise _Unrecognised("CBO._tell: prefix test %r / ignore test %r / told marker %r not found" % (prefixes, ignore, told))
        # Optimizer._filter_failures, _tell, _moo_scalarize
        otree = ast.parse(open(os.path.join(repo, "src", "deephyper", "skopt", "optimizer", "optimizer.py")).read())
        ff = _find_func(otree, "Optimizer", "_filter_failures")
        impute, mean_lits, fail_lits = [], [], []
        for left, op, right in _compares(ff):
            if isinstance(op, ast.In) and isinstance(right, (ast.List, ast.Tuple)) and _mentions(left, "filter_failures"):
                vals = [_lit(e, optm) for e in right.elts]
                if any(v is None for v in vals):
                    raise _Unrecognised("non-literal option list in _filter_failures")
                impute += vals
                continue
            for a, b in ((left, right), (right, left)):
                s = _lit(a, optm)
                if s is None:
                    continue
                if _mentions(b, "filter_failures") and isinstance(op, ast.Eq):
                    mean_lits.append(s)
                elif isinstance(b, ast.Name) and isinstance(op, (ast.Eq, ast.NotEq)):
                    fail_lits.append(s)
                else:
                    raise _Unrecognised("_filter_failures compares a string in an unknown way")
        if not impute or not mean_lits or not fail_lits:
            raise _Unrecognised("_filter_failures: option list %r / mean test %r / failure test %r not found" % (impute, mean_lits, fail_lits))
        n_other = 0
        for fname in ("_tell", "_moo_scalarize"):
            for left, op, right in _compares(_find_func(otree, "Optimizer", fname)):
                for a, b in ((left, right), (right, left)):
                    s = _lit(a, optm)
                    if s is None:
                        continue
                    if isinstance(b, ast.Name):
                        fail_lits.append(s)       # a told value / the history compared with a string
                        n_other += 1
                    elif isinstance(b, ast.Attribute) and isinstance(b.value, ast.Name) and b.value.id == "self":
                        continue                   # a configuration string (acq_func, acq_optimizer ...), not a told value
                    else:                          # fail closed: a string test of a shape this translator does not know
                        raise _Unrecognised("Optimizer.%s compares a string in an unknown way: %s" % (fname, ast.dump(b)[:80]))
        if n_other == 0:
            raise _Unrecognised("no failure test found in Optimizer._tell / _moo_scalarize")
        # CBO.fit_surrogate: the marker told for the failed rows of a checkpoint, the policy test (after the repair F72)
        fs = _find_func(tree, "CBO", "fit_surrogate")
        fs_told, fs_ignore = [], []
        for node in ast.walk(fs):
            if isinstance(node, ast.BinOp) and isinstance(node.op, ast.Mult):
                for side in (node.left, node.right):
                    if isinstance(side, (ast.List, ast.Tuple)) and len(side.elts) == 1 and _lit(side.elts[0], cbo) is not None:
                        fs_told.append(_lit(side.elts[0], cbo))
        for left, op, right in _compares(fs):
            for a, b in ((left, right), (right, left)):
                s = _lit(a, cbo)
                if s is not None and _mentions(b, "filter_failures"):
                    fs_ignore.append(s)
        if not fs_told:
            raise _Unrecognised("CBO.fit_surrogate: the marker told for failed rows was not found")
    except _Unrecognised as e:
        return srcfacts.fail_closed(str(e)), {"error": str(e)}
    S, Ls = srcfacts.coq_string, srcfacts.coq_list
    text = "".join([
        "Definition objective_value_failure : string := %s.\n" % S(marker),
        "Definition fail_return_value : string := %s.\n" % S(frv),
        "Definition cbo_tell_prefixes : list string := %s.\n" % Ls([S(s) for s in prefixes]),
        "Definition cbo_tell_told : list string := %s.\n" % Ls([S(s) for s in told]),
        "Definition cbo_ignore_literals : list string := %s.\n" % Ls([S(s) for s in ignore]),
        "Definition map_filter_failures : list (string * string) := %s.\n" % Ls(["(%s, %s)" % (S(k), S(v)) for k, v in mapff]),
        "Definition opt_impute_names : list string := %s.\n" % Ls([S(s) for s in impute]),
        "Definition opt_mean_literals : list string := %s.\n" % Ls([S(s) for s in mean_lits]),
        "Definition opt_failure_literals : list string := %s.\n" % Ls([S(s) for s in fail_lits]),
        "Definition cbo_default_filter_failures : string := %s.\n" % S(default_ff),
        "Definition fit_surrogate_told : list string := %s.\n" % Ls([S(s) for s in fs_told]),
        "Definition fit_surrogate_policy_literals : list string := %s.\n" % Ls([S(s) for s in fs_ignore]),
    ])
    info = dict(objective_value_failure=marker, fail_return_value=frv, cbo_tell_prefixes=prefixes, cbo_tell_told=told, cbo_ignore_literals=ignore,
                map_filter_failures=mapff, opt_impute_names=impute, opt_mean_literals=mean_lits, opt_failure_literals=fail_lits,
                cbo_default_filter_failures=default_ff, fit_surrogate_told=fs_told, fit_surrogate_policy_literals=fs_ignore)
    return text, info


# ------------------------------------------------------------------------------------------------------------------
# encodings
# ------------------------------------------------------------------------------------------------------------------
MARKER = "F"


class Toks:
    """string -> integer token; the failure marker is token 0."""

    def __init__(self):
        self.t = {MARKER: 0}

    def __call__(self, s):
        return self.t.setdefault(s, len(self.t))


def enc_f(x):
    x = float(x)
    if math.isnan(x):
        return [1]
    if x == math.inf:
        return [2]
    if x == -math.inf:
        return [3]
    fr = Fraction(x)
    return [0, fr.numerator, fr.denominator]


def same_f(d, v, atol=None):
    """model fnum d  vs  implementation float v: exact on dyadic values, within 2^-50 relative where the model divided by a count."""
    try:
        v = float(v)
    except (TypeError, ValueError):
        return False
    if d[0] == 1:
        return math.isnan(v)
    if d[0] == 2:
        return v == math.inf
    if d[0] == 3:
        return v == -math.inf
    if not math.isfinite(v):
        return False
    q = Fraction(d[1], d[2])
    if q.denominator & (q.denominator - 1) == 0:
        return float(q) == v               # dyadic: exact
    # a mean over 3, 5, 6, 7 ... values: the code rounds once per division (twice for a cl_mean lie over imputed means)
    if atol is not None:   # a mean over values of mixed sign: the rounding error is relative to the summands, not to the result
        return abs(Fraction(v) - q) <= atol
    return abs(Fraction(v) - q) <= abs(q) * Fraction(1, 2 ** 50)


def enc_elem(v, toks):
    if isinstance(v, str):
        return [1, toks(v), v.startswith("F")]
    return [0, enc_f(v)]


def enc_obj(o, toks):
    if isinstance(o, (tuple, list)):
        return [1, [enc_elem(v, toks) for v in o]]
    return [0, enc_elem(o, toks)]


def canon_obj(d):
    def ce(e):
        if e[0] == 1:
            return ("s", e[1], bool(e[2]))
        f = e[1]
        return ("n", f[0], Fraction(f[1], f[2]) if f[0] == 0 else 0)
    return ("S", ce(d[1])) if d[0] == 0 else ("T", tuple(ce(e) for e in d[1]))


def enc_told(y):
    if isinstance(y, str):
        return [2]
    if isinstance(y, (list, tuple)):
        return [1, [enc_f(v) for v in y]]
    return [0, enc_f(y)]


def same_told(d, y, atol=None):
    if d[0] == 2:
        return isinstance(y, str) and y == MARKER
    if d[0] == 1:
        return isinstance(y, (list, tuple)) and len(y) == len(d[1]) and all(same_f(a, b, atol) for a, b in zip(d[1], y))
    return not isinstance(y, (str, list, tuple)) and same_f(d[1], y, atol)


def show(y):
    return repr(y)


NUMS = {"nan": float("nan"), "inf": float("inf"), "-inf": float("-inf")}


def to_py(spec, flavour="py"):
    """JSON-able objective spec -> python value.  number: float or 'nan'/'inf'/'-inf' wrapped as ['n', v]; string: ['s', text];
    tuple/list: ['t'|'l', [elements]]."""
    import numpy as np

    tag, v = spec
    if tag == "n":
        x = NUMS[v] if isinstance(v, str) else v
        if flavour == "np64":
            return np.float64(x)
        if flavour == "np32":
            return np.float32(x)
        if flavour == "int" and isinstance(x, float) and x.is_integer():
            return int(x)
        if flavour == "np_int" and isinstance(x, float) and x.is_integer():
            return np.int64(x)
        if flavour == "bool" and x in (0.0, 1.0):
            return bool(x)
        return float(x)
    if tag == "s":
        return v
    # inside a tuple / list a python bool stands next to floats only as an int-like value: np.negative rejects an all-bool tuple
    # (an objective vector of booleans is outside the property)
    seq = [to_py(e, "int" if flavour == "bool" else flavour) for e in v]
    return tuple(seq) if tag == "t" else list(seq)


def is_nonfinite(spec):
    return spec[0] == "n" and isinstance(spec[1], str)


def spec_has_tuple_nonfinite(spec):
    return spec[0] in ("t", "l") and any(is_nonfinite(e) for e in spec[1])


def dyadic(rng, lo=-16, hi=16, q=4):
    """Small dyadic value; exact zeros (falsy!), -0.0 and 1.0 (== True) are frequent on purpose."""
    r = rng.random()
    if r < 0.08:
        return 0.0
    if r < 0.10:
        return -0.0
    if r < 0.14:
        return 1.0
    return rng.randint(lo * q, hi * q) / q


FLAVOURS = ["py", "py", "np64", "np32", "int", "np_int", "bool"]
EXPS = [0, 0, 0, -40, 40]     # one common power-of-two factor per case: exact in binary64, exposes absolute tolerances / magnitude tests


# ------------------------------------------------------------------------------------------------------------------
# stream on_done
# ------------------------------------------------------------------------------------------------------------------
_ev = None


def _evaluator():
    global _ev
    if _ev is None:
        from deephyper.evaluator import Evaluator, HPOJob

        async def run(job):
            return 0.0

        _ev = Evaluator.create(run, method="serial")
        _ev._job_class = HPOJob
    return _ev


def gen_elem(rng, p_bad):
    r = rng.random()
    if r < p_bad:
        return ["n", rng.choice(["nan", "inf", "-inf"])]
    if r < p_bad + 0.06:
        return ["s", rng.choice(["F", "F_elem", "X_elem"])]
    return ["n", dyadic(rng)]


def gen_ondone(count):
    def g(rng, tier):
        n = count * (3 if tier == "search" else 1)
        for i in range(n):
            k = rng.choice([1, 1, 2, 2, 3])
            r = rng.random()
            if k == 1 or r < 0.35:
                r2 = rng.random()
                if r2 < 0.3:
                    spec = ["n", dyadic(rng)]
                elif r2 < 0.55:
                    spec = ["n", rng.choice(["nan", "inf", "-inf"])]
                elif r2 < 0.8:
                    spec = ["s", rng.choice(["F", "F_fail", "Failure: out of memory", "F_%d" % rng.randint(0, 99)])]
                elif r2 < 0.9:
                    spec = ["s", rng.choice(["X_other", "error", "f_lower"])]
                else:
                    spec = [rng.choice(["t", "l"]), [gen_elem(rng, 0.3)]]
            else:
                spec = [rng.choice(["t", "l"]), [gen_elem(rng, rng.choice([0.0, 0.2, 0.5])) for _ in range(k)]]
            yield dict(k=k, form=rng.choice(["raw", "raw", "dict", "dict_meta", "output_meta"]), obj=spec, flavour=rng.choice(FLAVOURS))
    return g


def check_ondone(case):
    from deephyper.evaluator import JobStatus

    ev = _evaluator()
    toks = Toks()
    o = to_py(case["obj"], case["flavour"])
    form = case["form"]
    out = o if form == "raw" else {"objective": o} if form == "dict" else {"objective": o, "metadata": {"a": 1}} if form == "dict_meta" else {"output": o, "metadata": {"b": 2}}
    jid = ev._storage.create_new_job(ev._search_id)
    job = ev._create_job(jid, {"x": 1}, ev.run_function, ev._storage)
    job.status = JobStatus.RUNNING
    job.set_output(out)
    before = enc_obj(job.objective, toks)
    ev._on_done(job)
    ev.jobs_done = []
    after = enc_obj(job.objective, toks)
    m = model()
    reported = bool(m.call(F_REPORTED, before))
    tn = spec_has_tuple_nonfinite(case["obj"])
    res = dict(ok=True, kind="oracle", clause="", nontrivial=reported, sig={"tuple_nonfinite": tn},
               desc=["k=%d" % case["k"], "form=" + form, "kind=" + ("tuple_nonfinite" if tn else "scalar_" + case["obj"][0] if case["obj"][0] in "ns" else "tuple"),
                     "reported_failure" if reported else "not_a_failure"])
    if job.status is not JobStatus.DONE:
        return dict(res, ok=False, clause="status_not_done", detail=str(job.status))
    if not m.call(F_OKROW, [case["k"], before, after]):
        return dict(res, ok=False, clause="failed_row_not_marked", detail=dict(returned=show(o), objective_after_on_done=show(job.objective)))
    want = m.call(F_ONDONE, [True, before])
    if canon_obj(want) != canon_obj(after):
        return dict(res, ok=False, kind="corr", clause="on_done_output", detail=dict(returned=show(o), impl=show(job.objective), model=want))
    # what _on_done wrote to the STORAGE is what a peer search (same storage and search id) rebuilds the job from in
    # gather_other_jobs_done, without going through _on_done again: it must be the sanitised objective too
    data = ev._storage.load_job(jid)
    if "out" not in data:
        return dict(res, ok=False, clause="output_not_stored", detail=dict(returned=show(o), stored=show(data)))
    stored = enc_obj(data["out"], toks)
    if not m.call(F_OKROW, [case["k"], before, stored]):
        return dict(res, ok=False, clause="failure_not_marked_in_storage", detail=dict(returned=show(o), objective_after_on_done=show(job.objective), stored_out=show(data["out"])))
    if canon_obj(want) != canon_obj(stored):
        return dict(res, ok=False, kind="corr", clause="stored_output", detail=dict(returned=show(o), stored_out=show(data["out"]), model=want))
    return res


def shrink_ondone(case):
    if case["form"] != "raw":
        yield dict(case, form="raw")
    if case["flavour"] != "py":
        yield dict(case, flavour="py")
    tag, v = case["obj"]
    if tag in ("t", "l"):
        for i in range(len(v)):
            if len(v) > 1:
                yield dict(case, obj=[tag, v[:i] + v[i + 1:]])
            if v[i][0] == "n" and not isinstance(v[i][1], str) and v[i][1] != 1.0:
                yield dict(case, obj=[tag, v[:i] + [["n", 1.0]] + v[i + 1:]])


# ------------------------------------------------------------------------------------------------------------------
# stream cbo_tell (spy optimizer)
# ------------------------------------------------------------------------------------------------------------------
class _SpyOpt:
    def __init__(self):
        self.calls = []
        self.acq_func_kwargs = {}

    def tell(self, X, y):
        self.calls.append((list(X), list(y)))

    def update_next(self):
        # CBO._tell renews the optimizer's suggestions when a whole batch was dropped (nothing is told)
        pass


_cbo = {}


def _cbo_search(ff):
    if ff not in _cbo:
        from deephyper.evaluator import Evaluator
        from deephyper.hpo import CBO, HpProblem

        async def run(job):
            return 0.0

        p = HpProblem()
        p.add_hyperparameter((0.0, 10.0), "x")
        p.add_hyperparameter(["a", "b", "c"], "c")
        d = tempfile.mkdtemp(prefix="vp_c06_")
        try:
            _cbo[ff] = CBO(p, Evaluator.create(run, method="serial"), random_state=1, log_dir=d, surrogate_model="DUMMY", filter_failures=ff)
        finally:
            import shutil

            shutil.rmtree(d, ignore_errors=True)
    return _cbo[ff]


def gen_obj(rng, k, p_fail, kinds=("str", "nan", "inf", "-inf", "tuple_nan")):
    """One run-function output for a k-objective problem."""
    if rng.random() < p_fail:
        kind = rng.choice(kinds)
        if kind == "tuple_nan" and k == 1:
            kind = "nan"
        if kind == "str":
            return ["s", rng.choice(["F", "F_a", "F_b%d" % rng.randint(0, 9), "Failed"])]
        if kind == "tuple_nan":
            els = [["n", dyadic(rng)] for _ in range(k)]
            els[rng.randrange(k)] = ["n", rng.choice(["nan", "inf", "-inf"])]
            return ["t", els]
        return ["n", kind]
    if k == 1:
        return ["n", dyadic(rng)]
    return [rng.choice(["t", "t", "l"]), [["n", dyadic(rng)] for _ in range(k)]]


def gen_cbotell(count):
    def g(rng, tier):
        n = count * (3 if tier == "search" else 1)
        for i in range(n):
            k = rng.choice([1, 1, 2, 3])
            batch = [gen_obj(rng, k, rng.choice([0.2, 0.5, 1.0])) for _ in range(rng.randint(1, 5))]
            if rng.random() < 0.15:
                batch.append(["s", rng.choice(["X_other", "error"])])
            if rng.random() < 0.1 and k > 1:
                batch.append(["t", [["n", 1.0]] * (k - 1) + [["s", "F_in_tuple"]]])
            yield dict(ff=rng.choice(["min", "mean", "ignore"]), k=k, batch=batch, flavour=rng.choice(FLAVOURS), exp=rng.choice(EXPS))
    return g


def scale_spec(spec, exp):
    tag, v = spec
    if tag == "n":
        return spec if isinstance(v, str) else ["n", v * 2.0 ** exp]
    if tag == "s":
        return spec
    return [tag, [scale_spec(e, exp) for e in v]]


def check_cbotell(case):
    from deephyper.evaluator import HPOJob

    s = _cbo_search(case["ff"])
    spy = _SpyOpt()
    s._opt = spy
    toks = Toks()
    objs = [to_py(scale_spec(b, case.get("exp", 0)), case.get("flavour", "py")) for b in case["batch"]]
    jobs = []
    for i, o in enumerate(objs):
        j = HPOJob("0.%d" % i, {"x": float(i), "c": "a"}, None, None)
        j.set_output(o)       # as the evaluator does: a scalar number becomes a float, tuple / list elements keep their type
        jobs.append(j)
    objs = [j.objective for j in jobs]
    before = [repr(j.output) + repr(j.args) for j in jobs]
    s._tell(jobs)
    handed_over_mutated = before != [repr(j.output) + repr(j.args) for j in jobs]
    want = model().call(F_CBOTELL, [{"min": 0, "mean": 1, "ignore": 2}[case["ff"]], [enc_obj(o, toks) for o in objs]])
    nfail = sum(1 for w in want if w[0] == 2)
    res = dict(ok=True, kind="corr", clause="", nontrivial=any(b[0] == "s" or is_nonfinite(b) or spec_has_tuple_nonfinite(b) for b in case["batch"]),
               sig={"ff": case["ff"]}, desc=["ff=" + case["ff"], "k=%d" % case["k"], "told_failures=%d" % min(nfail, 3), "dropped=%d" % min(len(objs) - len(want), 3)])
    res["desc"] = res["desc"] + ["flavour=" + case.get("flavour", "py"), "exp=%d" % case.get("exp", 0)]
    if handed_over_mutated:
        return dict(res, ok=False, clause="jobs_mutated_by_tell", detail=dict(before=before, after=[repr(j.output) for j in jobs]))
    if not want:
        if spy.calls:
            return dict(res, ok=False, clause="told_when_nothing_left", detail=dict(calls=show(spy.calls)))
        return res
    if len(spy.calls) != 1:
        return dict(res, ok=False, clause="tell_calls", detail=dict(calls=show(spy.calls), model=want))
    X, y = spy.calls[0]
    if len(y) != len(want) or len(X) != len(y) or not all(same_told(w, v) for w, v in zip(want, y)):
        return dict(res, ok=False, clause="told_values", detail=dict(batch=case["batch"], impl=show(y), model=want))
    return res


def shrink_batch(case):
    b = case["batch"]
    for i in range(len(b)):
        if len(b) > 1:
            yield dict(case, batch=b[:i] + b[i + 1:])


# ------------------------------------------------------------------------------------------------------------------
# stream filter_failures
# ------------------------------------------------------------------------------------------------------------------
def _optimizer(pol, maxf, n0=1, weights=None, est=None, seed=1):
    from deephyper.skopt import Optimizer

    kw = {}
    if weights is not None:
        kw = dict(moo_scalarization_strategy="Linear", moo_scalarization_weight=weights)
    return Optimizer([(0.0, 1.0)], base_estimator=est if est is not None else "dummy", n_initial_points=n0, acq_func="LCB", acq_optimizer="sampling",
                     acq_optimizer_kwargs={"n_points": 8, "filter_failures": pol, "max_failures": maxf}, objective_scaler="identity", random_state=seed, **kw)


def gen_told(rng, m, p_fail, allow_nonfinite=False):
    if rng.random() < p_fail:
        return "F"
    def one():
        if allow_nonfinite and rng.random() < 0.1:
            return rng.choice(["nan", "inf", "-inf"])
        return dyadic(rng)
    return one() if m == 0 else [one() for _ in range(m)]


def told_py(t, exp=0):
    f = 2.0 ** exp
    if t == "F":
        return "F"
    if isinstance(t, list):
        return [NUMS[v] if isinstance(v, str) else float(v) * f for v in t]
    return NUMS[t] if isinstance(t, str) else float(t) * f


def gen_filter(count):
    def g(rng, tier):
        n = count * (3 if tier == "search" else 1)
        for i in range(n):
            m = rng.choice([0, 0, 2, 3])
            nf = rng.random() < 0.15
            ys = [gen_told(rng, m, rng.choice([0.2, 0.5, 1.0]), nf) for _ in range(rng.randint(1, 6))]
            yield dict(pol=rng.choice(["mean", "max", "ignore"]), maxf=rng.choice([1, 2, 3, 100]), m=m, ys=ys, exp=rng.choice(EXPS))
    return g


_POL = {"mean": 0, "max": 1, "ignore": 2}


def check_filter(case):
    from deephyper.skopt.optimizer.optimizer import ExhaustedFailures

    opt = _optimizer(case["pol"], case["maxf"])
    ys = [told_py(t, case.get("exp", 0)) for t in case["ys"]]
    finite_in = all(math.isfinite(v) for t in ys if t != "F" for v in (t if isinstance(t, list) else [t]))
    m = model()
    enc = [enc_told(t) for t in ys]
    want = m.call(F_FILTER, [True, _POL[case["pol"]], case["maxf"], enc])
    nfail = sum(1 for t in ys if t == "F")
    res = dict(ok=True, kind="corr", clause="", nontrivial=nfail > 0, sig={"vector": case["m"] > 0},
               desc=["pol=" + case["pol"], "shape=%d" % case["m"], "failures=" + ("none" if nfail == 0 else "all" if nfail == len(ys) else "some"), "exhausted" if not want else "ok"])
    arg = [list(t) if isinstance(t, list) else t for t in ys]
    try:
        out = opt._filter_failures(arg)
    except ExhaustedFailures:
        if want:
            return dict(res, ok=False, clause="exhausted_unexpected", detail=dict(case=case, model=want))
        return res
    if repr(arg) != repr(ys):   # the optimizer passes its own yi: imputing in place would make failures disappear from the history
        return dict(res, ok=False, clause="input_mutated", detail=dict(told=show(ys), after=show(arg)))
    if not want:
        return dict(res, ok=False, clause="exhausted_expected", detail=dict(case=case, impl=show(out)))
    if case["pol"] != "ignore" and finite_in and nfail < len(ys) and not m.call(F_OKLIE, [enc_told(t) for t in out]):
        return dict(res, ok=False, kind="oracle", clause="lie_inputs_ragged", detail=dict(told=show(ys), filtered=show(out)))
    if len(out) != len(want[0]) or not all(same_told(w, v) for w, v in zip(want[0], out)):
        return dict(res, ok=False, clause="filtered_values", detail=dict(told=show(ys), impl=show(out), model=want[0]))
    return res


def shrink_ys(case):
    ys = case["ys"]
    for i in range(len(ys)):
        if len(ys) > 1:
            yield dict(case, ys=ys[:i] + ys[i + 1:])


# ------------------------------------------------------------------------------------------------------------------
# stream optimizer_tell (spy estimator)
# ------------------------------------------------------------------------------------------------------------------
_REC = []
_LIES = []
_spy_cls = None


def _unstr(v):
    """np.asarray of a list holding the marker and numbers is an array of strings: read the numbers back."""
    if isinstance(v, str) and v != MARKER:
        try:
            return float(v)
        except ValueError:
            return v
    return v


def _spy_estimator():
    global _spy_cls
    if _spy_cls is None:
        from sklearn.dummy import DummyRegressor

        class SpyRegressor(DummyRegressor):
            def fit(self, X, y, sample_weight=None):
                _REC.append([_unstr(v) for v in (y.tolist() if hasattr(y, "tolist") else y)])
                return super().fit(X, y)

        _spy_cls = SpyRegressor
    return _spy_cls()


def gen_opttell(count):
    def g(rng, tier):
        n = count * (3 if tier == "search" else 1)
        for i in range(n):
            m = rng.choice([0, 0, 2, 3])
            pol = rng.choice(["mean", "max", "ignore"])
            pf = rng.choice([0.0, 0.3, 0.6, 1.0]) if pol != "ignore" else rng.choice([0.0, 0.0, 0.0, 0.3])
            batches = [[gen_told(rng, m, pf) for _ in range(rng.randint(1, 3))] for _ in range(rng.randint(1, 4))]
            yield dict(pol=pol, maxf=rng.choice([1, 2, 3, 100]), n0=rng.choice([0, 1, 1, 2, 3]), m=m,
                       weights=[rng.randint(1, 8) for _ in range(m)], batches=batches, liar=rng.choice(["cl_min", "cl_mean", "cl_max"]), exp=rng.choice(EXPS))
    return g


def check_opttell(case):
    from deephyper.skopt import Optimizer
    from deephyper.skopt.optimizer.optimizer import ExhaustedFailures

    m = model()
    w = [a / 8 for a in case["weights"]]
    opt = _optimizer(case["pol"], case["maxf"], case["n0"], w if case["m"] else None, _spy_estimator())
    batches = [[told_py(t, case.get("exp", 0)) for t in b] for b in case["batches"]]
    trace = m.call(F_OPTRUN, [True, _POL[case["pol"]], case["maxf"], case["n0"], [[a, 8] for a in case["weights"]], [[enc_told(t) for t in b] for b in batches]])
    allf = [t for b in batches for t in b]
    nfail = sum(1 for t in allf if t == "F")
    res = dict(ok=True, kind="corr", clause="", nontrivial=nfail > 0, sig={"vector": case["m"] > 0},
               desc=["pol=" + case["pol"], "shape=%d" % case["m"], "n0=%d" % case["n0"], "failures=" + ("none" if nfail == 0 else "all" if nfail == len(allf) else "some")])
    k = 0
    fitted = False
    for b, (ninit, due, fin) in zip(batches, trace):
        X = [[(k + i + 1) / 64] for i in range(len(b))]
        k += len(b)
        del _REC[:]
        exc = None
        try:
            opt.tell(X, list(b))
        except ExhaustedFailures:
            exc = "exhausted"
        except Exception as e:  # the estimator rejected what it was given
            exc = type(e).__name__
        if not due:
            if _REC or exc:
                return dict(res, ok=False, clause="fit_not_due", detail=dict(case=case, fitted=show(_REC), exc=exc))
        elif not fin:
            if exc != "exhausted":
                return dict(res, ok=False, clause="exhausted_expected", detail=dict(case=case, fitted=show(_REC), exc=exc))
            res["desc"] = res["desc"] + ["exhausted"]
            return res  # the optimizer is not usable after the exception
        else:
            want = fin[0]
            if exc == "exhausted" or len(_REC) != 1:
                return dict(res, ok=False, clause="fit_expected", detail=dict(case=case, fitted=show(_REC), exc=exc, model=want))
            y = _REC[0]
            clean_input = case["pol"] != "ignore" or "F" not in [t for bb in batches for t in bb]
            if clean_input and not m.call(F_OKFIT, [enc_told(v) for v in y]):
                return dict(res, ok=False, kind="oracle", clause="fit_on_nonfinite", detail=dict(case=case, fitted=show(y)))
            if len(y) != len(want) or not all(same_told(a, v) for a, v in zip(want, y)):
                return dict(res, ok=False, clause="fit_values", detail=dict(case=case, impl=show(y), model=want))
            if exc and clean_input:
                return dict(res, ok=False, kind="oracle", clause="exception:" + exc, detail=dict(case=case))
            if exc:
                return res
            fitted = True
        if opt._n_initial_points != ninit:
            return dict(res, ok=False, clause="n_initial_points", detail=dict(case=case, impl=opt._n_initial_points, model=ninit))
    # the history is kept as told: no imputed / scaled value is written back into yi, the caller's lists are left alone
    told_all = [told_py(t, case.get("exp", 0)) for b in case["batches"] for t in b]
    if repr(list(opt.yi)) != repr(told_all) or repr(batches) != repr([[told_py(t, case.get("exp", 0)) for t in b] for b in case["batches"]]):
        return dict(res, ok=False, clause="history_mutated", detail=dict(case=case, yi=show(list(opt.yi)), told=show(told_all)))
    # the first constant-liar lie of a 2-point ask (computed from _filter_failures(yi))
    if fitted and case["pol"] != "ignore":
        yi = [t for b in batches for t in b]
        lie = m.call(F_ASKLIE, [True, _POL[case["pol"]], case["maxf"], {"cl_min": 0, "cl_mean": 1, "cl_max": 2}[case["liar"]], [enc_told(t) for t in yi]])
        del _LIES[:]
        orig = Optimizer._tell

        def spy_tell(self, x, y, fit=True):
            if x and not isinstance(x[0], (list, tuple)):
                _LIES.append(y)
            return orig(self, x, y, fit)

        Optimizer._tell = spy_tell
        exc = None
        try:
            opt.ask(n_points=2, strategy=case["liar"])
        except Exception as e:
            exc = type(e).__name__
        finally:
            Optimizer._tell = orig
        res["desc"] = res["desc"] + ["lie"]
        if lie[0] == 0:
            if exc or not _LIES:
                return dict(res, ok=False, kind="oracle", clause="multi_point_ask_failed", detail=dict(case=case, exc=exc, model=lie))
            mags = [abs(v) for t in yi if t != "F" for v in (t if isinstance(t, list) else [t])]
            if not same_told(lie[1], _LIES[0], atol=Fraction(max(mags + [0.0])) * Fraction(1, 2 ** 46)):
                return dict(res, ok=False, clause="lie_value", detail=dict(case=case, impl=show(_LIES[0]), model=lie))
        elif exc is None:
            return dict(res, ok=False, clause="lie_error_expected", detail=dict(case=case, model=lie, impl=show(_LIES)))
    return res


def shrink_batches(case):
    bs = case["batches"]
    for i in range(len(bs)):
        if len(bs) > 1:
            yield dict(case, batches=bs[:i] + bs[i + 1:])
        for j in range(len(bs[i])):
            if len(bs[i]) > 1:
                yield dict(case, batches=bs[:i] + [bs[i][:j] + bs[i][j + 1:]] + bs[i + 1:])


# ------------------------------------------------------------------------------------------------------------------
# stream regevo_tell
# ------------------------------------------------------------------------------------------------------------------
def gen_regevo(count):
    def g(rng, tier):
        for i in range(count):
            hist = [[gen_obj(rng, 1, rng.choice([0.2, 0.5, 0.9]), ("str", "nan", "inf", "-inf")) for _ in range(rng.randint(1, 3))] for _ in range(rng.randint(1, 5))]
            yield dict(cap=rng.choice([2, 3, 5]), hist=hist)
    return g


def check_regevo(case):
    from deephyper.evaluator import Evaluator, HPOJob, JobStatus
    from deephyper.hpo import HpProblem, RegularizedEvolution

    async def run(job):
        return 0.0

    p = HpProblem()
    p.add_hyperparameter((0.0, 10.0), "x")
    toks = Toks()
    with tempfile.TemporaryDirectory(prefix="vp_c06_") as d:
        ev = Evaluator.create(run, method="serial")
        s = RegularizedEvolution(p, ev, random_state=1, log_dir=d, population_size=case["cap"], sample_size=1)
        n = 0
        mh = []
        for batch in case["hist"]:
            jobs, mb = [], []
            for spec in batch:
                jid = ev._storage.create_new_job(ev._search_id)
                job = ev._create_job(jid, {"x": float(n)}, run, ev._storage)
                job.status = JobStatus.RUNNING
                job.set_output(to_py(spec))
                mb.append([n, enc_obj(job.objective, toks)])
                ev._on_done(job)
                jobs.append(job)
                n += 1
            mh.append(mb)
            s._tell(jobs)
        pop = [(int(cfg["x"]), obj) for cfg, obj in s._population]
    want = model().call(F_REGEVO, [True, case["cap"], mh])
    nfail = sum(1 for b in case["hist"] for sp in b if sp[0] == "s" or is_nonfinite(sp))
    res = dict(ok=True, kind="corr", clause="", nontrivial=nfail > 0, sig={}, desc=["cap=%d" % case["cap"], "failures=%d" % min(nfail, 4)])
    if any(isinstance(o, str) or not math.isfinite(o) for _, o in pop):
        return dict(res, ok=False, kind="oracle", clause="failure_in_population", detail=dict(case=case, population=show(pop)))
    if [(i, canon_obj(o)) for i, o in want] != [(i, canon_obj(enc_obj(o, toks))) for i, o in pop]:
        return dict(res, ok=False, clause="population", detail=dict(case=case, impl=show(pop), model=want))
    return res


def shrink_hist(case):
    h = case["hist"]
    for i in range(len(h)):
        if len(h) > 1:
            yield dict(case, hist=h[:i] + h[i + 1:])


# ------------------------------------------------------------------------------------------------------------------
# stream searches
# ------------------------------------------------------------------------------------------------------------------
LABELS = [lambda i: "F_a%d" % i, lambda i: ["F", "Failure: timeout", "F_b", "FAILED_%d" % i][i % 4]]
CHOICES = ["a", "b", "c"]


def pattern_outputs(case, labeling):
    """The run-function's outputs, by job id."""
    k = case["k"]
    outs = []
    for i, (kind, vals) in enumerate(case["pattern"]):
        if kind == "ok":
            outs.append(vals[0] if k == 1 else tuple(vals[:k]))
        elif kind == "str":
            outs.append(LABELS[labeling](i))
        elif kind == "tuple_nan":
            v = list(vals[:k])
            v[i % k] = float("nan")
            outs.append(tuple(v))
        else:
            outs.append(NUMS[kind])
    return outs


# non-default configurations (second entry points of the same failure handling): name -> CBO keyword arguments
OPTIONS = {
    "mps=cl_min": dict(multi_point_strategy="cl_min"), "mps=cl_mean": dict(multi_point_strategy="cl_mean"), "mps=qUCB": dict(multi_point_strategy="qUCB"),
    "mps=qUCBd": dict(multi_point_strategy="qUCBd"), "mps=topk": dict(multi_point_strategy="topk"), "mps=boltzmann": dict(multi_point_strategy="boltzmann"),
    "acq=UCB": dict(acq_func="UCB"), "acq=EI": dict(acq_func="EI"), "acq=PI": dict(acq_func="PI"), "acq=MES": dict(acq_func="MES"), "acq=gp_hedge": dict(acq_func="gp_hedge"),
    "acq=EId": dict(acq_func="EId"),
    "scaler=identity": dict(objective_scaler="identity"), "scaler=minmax": dict(objective_scaler="minmax"), "scaler=quantile-uniform": dict(objective_scaler="quantile-uniform"),
    "scaler=log": dict(objective_scaler="log"), "scaler=minmaxlog": dict(objective_scaler="minmaxlog"),
    "moo=Linear": dict(moo_scalarization_strategy="Linear"), "moo=AugChebyshev": dict(moo_scalarization_strategy="AugChebyshev"), "moo=PBI": dict(moo_scalarization_strategy="PBI"),
    "moo=Quadratic": dict(moo_scalarization_strategy="Quadratic"), "moo_lower_bounds": "moo_lb",
    "acq_optimizer=ga": dict(acq_optimizer="ga"), "acq_optimizer=mixedga": dict(acq_optimizer="mixedga"),
    "max_failures=1": dict(max_failures=1), "kappa=0": dict(kappa=0.0), "gather=ALL": "gather_all", "initial_points": "initial_points",
    "scheduler=decay": dict(scheduler={"type": "periodic-exp-decay", "period": 4, "kappa_final": 0.1}),
    "surrogate=TB": dict(surrogate_model="TB"), "surrogate=RS": dict(surrogate_model="RS"),
}


def option_kwargs(name, k):
    v = OPTIONS[name]
    if v == "moo_lb":
        return dict(moo_lower_bounds=[0.5] + [None] * (k - 1))
    if v == "initial_points":
        return dict(initial_points=[{"x": 1.0, "n": 1, "c": "a"}, {"x": 2.5, "n": 2, "c": "b"}])
    if v == "gather_all":
        return {}
    return dict(v)


def run_search(case, labeling):
    """One real search.  Returns dict(exc, rows, props, batches, yi, ninit)."""
    import numpy as np
    from deephyper.evaluator import Evaluator
    from deephyper.hpo import CBO, HpProblem, RandomSearch, RegularizedEvolution

    outs = pattern_outputs(case, labeling)
    k = case["k"]
    props = {}

    async def run(job):
        i = job["job_id"]
        props[i] = dict(job.parameters)
        if i < len(outs):
            return outs[i]
        return 1.0 if k == 1 else tuple([1.0] * k)

    p = HpProblem()
    p.add_hyperparameter((0.0, 10.0), "x")
    p.add_hyperparameter((0, 7), "n")
    p.add_hyperparameter(CHOICES, "c")
    ev = Evaluator.create(run, method="serial", method_kwargs=dict(num_workers=case["workers"]))
    told = []
    out = dict(exc=None, rows=None, props=None, batches=None, yi=None, ninit=None)
    with tempfile.TemporaryDirectory(prefix="vp_c06_") as d:
        cls = case["search"]
        if cls == "CBO":
            kw = dict(surrogate_model=case["surrogate"], filter_failures=case["ff"], n_initial_points=case["n0"], n_points=32)
            if case["surrogate"] in ("ET", "RF"):
                kw["surrogate_model_kwargs"] = dict(n_estimators=8)
            if case["surrogate"] == "GP":
                kw["acq_func"] = "UCB"   # the default UCBd is not supported by GP (finding F04 of C02)
            if case.get("option"):
                kw.update(option_kwargs(case["option"], k))
            s = CBO(p, ev, random_state=case["seed"], log_dir=d, **kw)
            if case.get("option") == "gather=ALL":
                s.gather_type = "ALL"
        elif cls == "RegularizedEvolution":
            s = RegularizedEvolution(p, ev, random_state=case["seed"], log_dir=d, population_size=3, sample_size=2)
        else:
            s = RandomSearch(p, ev, random_state=case["seed"], log_dir=d)
        orig_tell = s.tell

        def tell(results):
            told.append([int(j.id.split(".")[1]) for j in results])
            return orig_tell(results)

        s.tell = tell
        # the evaluations are spread over 1..3 search() calls on the same object (state that survives between calls)
        calls = case.get("calls") or [len(outs) + 1]
        try:
            for ci, n in enumerate(calls):
                df = s.search(max_evals=n)
                if ci == 0:
                    cols = [c for c in df.columns if c == "objective" or c.startswith("objective_")]
                    out["first_call_all_failed"] = len(df) > 0 and all(isinstance(r[c], str) and r[c].startswith("F") for _, r in df.iterrows() for c in cols)
        except Exception as e:
            import traceback

            out["exc"] = type(e).__name__
            out["trace"] = traceback.format_exc()[-1500:]
            return out
        cols = [c for c in df.columns if c == "objective" or c.startswith("objective_")]
        out["rows"] = [[int(r["job_id"]), [isinstance(r[c], str) and r[c].startswith("F") for c in cols]] for _, r in df.iterrows()]
        out["cells"] = [[int(r["job_id"])] + [str(r[c]) for c in cols] for _, r in df.iterrows()]
        out["props"] = [props[i] for i in sorted(props)]
        out["batches"] = told
        if cls == "CBO":
            out["yi"] = list(s._opt.yi)
            out["ninit"] = int(s._opt._n_initial_points)
    return out


def enc_props(ps, scale):
    res = []
    for cfg in ps:
        x, n, c = cfg["x"], cfg["n"], cfg["c"]
        res.append([int(Fraction(float(x)) * scale), int(n) if float(n).is_integer() else -1, CHOICES.index(c) if c in CHOICES else -1])
    return res


def check_search(case):
    m = model()
    toks = Toks()
    outs1 = pattern_outputs(case, 0)
    failed = [i for i, o in enumerate(outs1) if m.call(F_REPORTED, enc_obj(o, toks))]
    kinds = [kd for kd, _ in case["pattern"]]
    nfail = len(failed)
    sig = {"objectives": "single" if case["k"] == 1 else "multi", "first": "failure" if kinds and kinds[0] != "ok" else "success",
           "tuple_nonfinite": "tuple_nan" in kinds, "workers": case["workers"]}
    shape = "none" if nfail == 0 else "only" if nfail == len(kinds) else "first" if kinds[0] != "ok" else "mixed"
    res = dict(ok=True, kind="oracle", clause="", nontrivial=nfail > 0, sig=sig,
               desc=["search=" + case["search"], "surrogate=" + str(case.get("surrogate")), "ff=" + str(case.get("ff")), "objectives=" + sig["objectives"],
                     "workers=%d" % case["workers"], "failures=" + shape, "calls=%d" % len(case.get("calls") or [0]), "option=" + str(case.get("option"))]
               + sorted(set("kind=" + kd for kd in kinds if kd != "ok")))
    r1 = run_search(case, 0)
    r2 = run_search(case, 1) if r1["exc"] is None else r1
    raised = r1["exc"] or r2["exc"]
    if raised:
        obs = [True, failed, [], [], [], []]
    else:
        dens = [Fraction(float(c["x"])).denominator for c in r1["props"] + r2["props"]]
        scale = max(dens + [1])
        p1, p2 = enc_props(r1["props"], scale), enc_props(r2["props"], scale)
        box = [[0, 10 * scale], [0, 7], [0, len(CHOICES) - 1]]
        if case["workers"] > 1:
            # two jobs finishing in one gather are handed back in the iteration order of a set (C07's subject), so the two runs are
            # not comparable proposal by proposal: the second labeling is still checked for returning, rows and bounds
            if m.call(F_OKSEARCH, [False, failed, r2["rows"], box, p2, p2]) == 0:
                p2 = p1
        obs = [False, failed, r1["rows"], box, p1, p2]
    code = m.call(F_OKSEARCH, obs)
    if code:
        clause = SEARCH_CLAUSE.get(code, str(code))
        if code == 1:
            clause = "exception:" + raised
        detail = dict(outputs=show(outs1), exc=raised, trace=(r1.get("trace") or r2.get("trace")), table=r1.get("cells"), failed_jobs=failed,
                      proposals_labeling_1=r1.get("props"), proposals_labeling_2=r2.get("props"))
        sig = dict(sig, first_call_all_failed=bool(len(case.get("calls") or []) > 1 and (r1.get("first_call_all_failed") or r2.get("first_call_all_failed"))))
        return dict(res, ok=False, clause=clause, detail=detail, sig=sig)
    # correspondence: what the optimizer holds after the search = the model's run over the batches told
    if case["search"] == "CBO":
        hist = [[enc_obj(outs1[j] if j < len(outs1) else (1.0 if case["k"] == 1 else tuple([1.0] * case["k"])), toks) for j in b] for b in r1["batches"]]
        ninit, yi = m.call(F_RUN, [True, {"min": 0, "mean": 1, "ignore": 2}[case["ff"]], case["n0"], hist])
        if ninit != r1["ninit"] or len(yi) != len(r1["yi"]) or not all(same_told(a, v) for a, v in zip(yi, r1["yi"])):
            return dict(res, ok=False, kind="corr", clause="optimizer_state", detail=dict(outputs=show(outs1), batches=r1["batches"], impl=[r1["ninit"], show(r1["yi"])], model=[ninit, yi]))
        if case["workers"] == 1 and r1["yi"] != r2["yi"] and not all((a == b) or (a != a and b != b) for a, b in zip(r1["yi"], r2["yi"])):
            return dict(res, ok=False, kind="oracle", clause="label_changed_optimizer_inputs", detail=dict(a=show(r1["yi"]), b=show(r2["yi"])))
    return res


def gen_pattern(rng, k, length, shape, kinds):
    pat = []
    for i in range(length):
        if shape == "only":
            fail = True
        elif shape == "first":
            fail = i < max(1, length // 3) or rng.random() < 0.2
        elif shape == "none":
            fail = False
        elif shape == "mixed":
            fail = i > 0 and (rng.random() < 0.5 or (i == 1 and length > 2))
        else:
            fail = rng.random() < 0.45
        vals = [dyadic(rng, -8, 8) for _ in range(max(k, 1))]
        if fail:
            kind = rng.choice(kinds)
            if kind == "tuple_nan" and k == 1:
                kind = "nan"
            pat.append([kind, vals])
        else:
            pat.append(["ok", vals])
    return pat


def gen_searches(quick_n, thorough_n):
    def g(rng, tier):
        th = tier == "thorough"
        n = thorough_n if th else quick_n * 2 if tier == "search" else quick_n
        surrogates = ["DUMMY", "ET", "ET", "RF", "GP"] if th else ["DUMMY", "ET", "ET"]
        # option sweep: every non-default configuration at least once (thorough: 4 times), failures after the first success
        for rep_ in range(4 if th else 1):
            for j, name in enumerate(sorted(OPTIONS)):
                k = 2 if (name.startswith("moo") or j % 2) else 1
                kinds = ["str", "nan", "inf", "-inf"] + (["tuple_nan"] if k > 1 else [])
                yield dict(search="CBO", k=k, workers=2 if (name.startswith("mps") or name == "gather=ALL" or j % 3 == 0) else 1, seed=rng.randint(0, 10 ** 6),
                           pattern=gen_pattern(rng, k, rng.randint(5, 7), "mixed", kinds), surrogate="ET", ff=["min", "mean", "ignore"][(j + rep_) % 3], n0=2, option=name)
        for i in range(n):
            r = i % 10
            search = "CBO" if r < 7 else "RegularizedEvolution" if r < 9 else "RandomSearch"
            k = 1 if search == "RegularizedEvolution" else rng.choice([1, 2, 2, 3] if th else [1, 2, 2, 1, 3])
            kinds = ["str", "str", "nan", "inf", "-inf"] + (["tuple_nan", "tuple_nan"] if k > 1 else [])
            shape = ["mixed", "first", "only", "mixed", "first", "mixed", "random", "mixed", "first", "none"][rng.randrange(10)]
            length = rng.randint(2, 10) if th else rng.randint(2, 7)
            case = dict(search=search, k=k, workers=rng.choice([1, 1, 2]), seed=rng.randint(0, 10 ** 6), pattern=gen_pattern(rng, k, length, shape, kinds))
            if search == "CBO":
                case.update(surrogate=surrogates[i % len(surrogates)], ff=["min", "mean", "ignore"][(i // 2) % 3], n0=rng.choice([1, 2, 3]))
                if case["surrogate"] in ("ET", "RF") and rng.random() < 0.5:
                    names = [o for o in sorted(OPTIONS) if (k > 1 or not o.startswith("moo")) and (case["workers"] > 1 or not o.startswith("mps"))]
                    case["option"] = rng.choice(names)
            # 1..3 search() calls on the same object
            total, ncalls = length + 1, rng.choice([1, 1, 2, 3])
            if ncalls > 1 and total >= ncalls:
                cuts = sorted(rng.sample(range(1, total), ncalls - 1))
                case["calls"] = [b - a for a, b in zip([0] + cuts, cuts + [total])]
            yield case
    return g


def shrink_search(case):
    pat = case["pattern"]
    for i in range(len(pat)):
        if len(pat) > 1:
            yield dict(case, pattern=pat[:i] + pat[i + 1:])
    if case["workers"] > 1:
        yield dict(case, workers=1)
    if case.get("option"):
        yield dict(case, option=None)
    if case.get("calls"):
        yield dict(case, calls=None)
    if case.get("surrogate") not in (None, "DUMMY"):
        yield dict(case, surrogate="DUMMY")
    if case.get("n0", 1) > 1 and not case.get("option"):
        yield dict(case, n0=1)
    for i in range(len(pat)):
        if pat[i][0] == "ok" and pat[i][1] != [1.0] * len(pat[i][1]):
            yield dict(case, pattern=pat[:i] + [["ok", [1.0] * len(pat[i][1])]] + pat[i + 1:])


# ------------------------------------------------------------------------------------------------------------------
# stream peer_searches: two searches sharing one storage and search id, taking turns
# ------------------------------------------------------------------------------------------------------------------
def run_peers(case):
    """Two CBO instances on one MemoryStorage / search id (decentralised search, cf. tests/hpo/test_parallel_cbo_manual.py) run
    search() in turns; each gathers what the peer stored meanwhile through Evaluator.gather_other_jobs_done, which rebuilds the
    peer's jobs from the storage WITHOUT _on_done.  Job ids are shared, so the run-function replays the pattern by job id."""
    import contextlib
    import io

    from deephyper.evaluator import Evaluator
    from deephyper.evaluator.storage import MemoryStorage
    from deephyper.hpo import CBO, HpProblem

    outs = pattern_outputs(case, 0)
    k = case["k"]
    props, ran_by = {}, {}

    def make_run(name):
        async def run(job):
            i = job["job_id"]
            props[i] = dict(job.parameters)
            ran_by[i] = name
            if i < len(outs):
                return outs[i]
            return 1.0 if k == 1 else tuple([1.0] * k)
        return run

    p = HpProblem()
    p.add_hyperparameter((0.0, 10.0), "x")
    p.add_hyperparameter((0, 7), "n")
    p.add_hyperparameter(CHOICES, "c")
    storage = MemoryStorage()
    out = dict(exc=None, tables={}, first={}, props=None, ran_by=None)
    with tempfile.TemporaryDirectory(prefix="vp_c06_") as d:
        searches = {}
        sid = None
        for name in ("a", "b"):
            ev = Evaluator.create(make_run(name), method="serial", method_kwargs=dict(num_workers=1, storage=storage, search_id=sid))
            kw = dict(surrogate_model=case["surrogate"], filter_failures=case["ff"], n_initial_points=case["n0"], n_points=32)
            if case["surrogate"] in ("ET", "RF"):
                kw["surrogate_model_kwargs"] = dict(n_estimators=8)
            os.makedirs(os.path.join(d, name))
            searches[name] = CBO(p, ev, random_state=case["seed"] + (name == "b"), log_dir=os.path.join(d, name), **kw)
            sid = searches["a"].search_id
        try:
            with contextlib.redirect_stdout(io.StringIO()):   # gather_other_jobs_done prints what it loads
                for name, n in case["turns"]:
                    df = searches[name].search(max_evals=n)
                    cols = [c for c in df.columns if c == "objective" or c.startswith("objective_")]
                    out["tables"][name] = [[int(r["job_id"]), [isinstance(r[c], str) and r[c].startswith("F") for c in cols], [str(r[c]) for c in cols]] for _, r in df.iterrows()]
                    out["first"].setdefault(name, out["tables"][name])
        except Exception as e:
            import traceback

            out["exc"] = type(e).__name__
            out["trace"] = traceback.format_exc()[-1500:]
    out["props"] = props
    out["ran_by"] = ran_by
    return out


def check_peers(case):
    m = model()
    toks = Toks()
    outs = pattern_outputs(case, 0)
    failed = [i for i, o in enumerate(outs) if m.call(F_REPORTED, enc_obj(o, toks))]
    kinds = [kd for kd, _ in case["pattern"]]
    sig = {"objectives": "single" if case["k"] == 1 else "multi", "peers": True, "nonfinite": any(kd in ("nan", "inf", "-inf", "tuple_nan") for kd in kinds)}
    res = dict(ok=True, kind="oracle", clause="", nontrivial=False, sig=sig,
               desc=["surrogate=" + case["surrogate"], "ff=" + case["ff"], "objectives=" + sig["objectives"], "turns=%d" % len(case["turns"])] + sorted(set("kind=" + kd for kd in kinds if kd != "ok")))
    r = run_peers(case)
    ids = sorted(r["props"])
    dens = [Fraction(float(r["props"][i]["x"])).denominator for i in ids]
    scale = max(dens + [1])
    pr = enc_props([r["props"][i] for i in ids], scale)
    box = [[0, 10 * scale], [0, 7], [0, len(CHOICES) - 1]]
    seen_peer_failure = False
    verdicts = []
    for name in ("a", "b"):
        rows = r["tables"].get(name)
        if rows is None and not r["exc"]:
            continue   # this instance had no turn
        rows = rows or []
        present = set(j for j, _, _ in rows)
        # every failed evaluation this instance ran itself must be in its table; a peer's failed evaluation must be marked when it is there
        mine = [j for j in failed if r["ran_by"].get(j) == name]
        theirs = [j for j in failed if r["ran_by"].get(j) not in (None, name) and j in present]
        seen_peer_failure = seen_peer_failure or bool(theirs)
        code = m.call(F_OKSEARCH, [bool(r["exc"]), [j for j in mine if j in present or not r["exc"]] + theirs, [[j, c] for j, c, _ in rows], box, pr, pr])
        verdicts.append((name, code, rows, mine, theirs))
        if code:
            clause = "exception:" + r["exc"] if code == 1 else SEARCH_CLAUSE.get(code, str(code))
            # the first search() call of this instance ended with failures only (its forced flush then fixes the header: C04's F06b)
            first = r["first"].get(name)
            sig = dict(sig, first_call_all_failed=bool(first) and all(flags and all(flags) for _, flags, _ in first))
            return dict(res, ok=False, clause=clause, nontrivial=True, sig=sig,
                        detail=dict(outputs=show(outs), instance=name, exc=r["exc"], trace=r.get("trace"), failed_jobs=failed, ran_by=r["ran_by"],
                                    table=[[j] + cells for j, _, cells in rows]))
    res["nontrivial"] = seen_peer_failure
    res["desc"] = res["desc"] + ["peer_failure_gathered" if seen_peer_failure else "no_peer_failure_gathered"]
    return res


def gen_peers(quick_n, thorough_n):
    def g(rng, tier):
        n = thorough_n if tier == "thorough" else quick_n * 2 if tier == "search" else quick_n
        for i in range(n):
            k = rng.choice([1, 1, 2])
            kinds = ["str", "nan", "nan", "inf", "-inf"] + (["tuple_nan", "tuple_nan"] if k > 1 else [])
            nturns = rng.choice([2, 3, 3, 4])
            turns, total = [], 0
            for t in range(nturns):
                cnt = rng.randint(2, 4)
                turns.append(["ab"[t % 2], cnt])
                total += cnt
            pat = gen_pattern(rng, k, total, rng.choice(["mixed", "mixed", "first", "random"]), kinds)
            # a scalar objective of exactly 0.0 is not generated here: gather_other_jobs_done skips a peer's job whose stored output is
            # falsy (`if job_data and job_data["out"]`), the peer never counts it as gathered and the collecting loop of search() spins
            # for ever - seen with this stream, a defect outside C06 (0.0 is a success), reported to the coordinator
            pat = [[kd, [v if v != 0.0 else 0.25 for v in vals]] for kd, vals in pat]
            yield dict(k=k, seed=rng.randint(0, 10 ** 6), surrogate=["ET", "DUMMY", "ET", "RF"][i % 4] if tier == "thorough" else ["ET", "DUMMY"][i % 2],
                       ff=["min", "mean", "ignore"][(i // 2) % 3], n0=rng.choice([1, 2, 3]), pattern=pat, turns=turns)
    return g


def shrink_peers(case):
    pat, turns = case["pattern"], case["turns"]
    if len(turns) > 2:
        yield dict(case, turns=turns[:-1])
    for i in range(len(turns)):
        if turns[i][1] > 1:
            yield dict(case, turns=turns[:i] + [[turns[i][0], turns[i][1] - 1]] + turns[i + 1:])
    for i in range(len(pat)):
        if pat[i][0] != "ok":
            yield dict(case, pattern=pat[:i] + [["ok", [1.0] * len(pat[i][1])]] + pat[i + 1:])
    if case["surrogate"] != "DUMMY":
        yield dict(case, surrogate="DUMMY")


# ------------------------------------------------------------------------------------------------------------------
# stream restart_searches: a search continued from a checkpoint that holds failed rows (CBO.fit_surrogate)
# ------------------------------------------------------------------------------------------------------------------
def run_restart(case):
    import contextlib
    import io

    import pandas as pd
    from deephyper.evaluator import Evaluator
    from deephyper.hpo import CBO, HpProblem

    k = case["k"]
    outs1 = pattern_outputs(dict(k=k, pattern=case["checkpoint"]), 0)
    outs2 = pattern_outputs(dict(k=k, pattern=case["pattern"]), 1)
    props = {}

    def make_run(outs, record):
        async def run(job):
            i = job["job_id"]
            if record:
                props[i] = dict(job.parameters)
            if i < len(outs):
                return outs[i]
            return 1.0 if k == 1 else tuple([1.0] * k)
        return run

    def problem():
        p = HpProblem()
        p.add_hyperparameter((0.0, 10.0), "x")
        p.add_hyperparameter((0, 7), "n")
        p.add_hyperparameter(CHOICES, "c")
        return p

    out = dict(exc=None, stage=None, rows=None, props=None, batches=None, yi=None, ninit=None, yi_restart=None)
    told = []
    with tempfile.TemporaryDirectory(prefix="vp_c06_") as d, contextlib.redirect_stdout(io.StringIO()):
        s1 = CBO(problem(), Evaluator.create(make_run(outs1, False), method="serial"), random_state=case["seed"], log_dir=os.path.join(d, "1"), surrogate_model="DUMMY")
        s1.search(max_evals=len(outs1))
        path = os.path.join(d, "1", "results.csv")
        kw = dict(surrogate_model=case["surrogate"], filter_failures=case["ff"], n_initial_points=case["n0"], n_points=32)
        if case["surrogate"] in ("ET", "RF"):
            kw["surrogate_model_kwargs"] = dict(n_estimators=8)
        s2 = CBO(problem(), Evaluator.create(make_run(outs2, True), method="serial"), random_state=case["seed"] + 1, log_dir=os.path.join(d, "2"), **kw)
        orig_tell = s2.tell

        def tell(results):
            told.append([int(j.id.split(".")[1]) for j in results])
            return orig_tell(results)

        s2.tell = tell
        try:
            out["stage"] = "fit_surrogate"
            s2.fit_surrogate(path if case["as_path"] else pd.read_csv(path))
            out["yi_restart"] = list(s2._opt.yi) if s2._opt is not None else []
            out["stage"] = "search"
            df = s2.search(max_evals=len(outs2) + 1)
        except Exception as e:
            import traceback

            out["exc"] = type(e).__name__
            out["trace"] = traceback.format_exc()[-1500:]
            return out
        cols = [c for c in df.columns if c == "objective" or c.startswith("objective_")]
        out["rows"] = [[int(r["job_id"]), [isinstance(r[c], str) and r[c].startswith("F") for c in cols]] for _, r in df.iterrows()]
        out["cells"] = [[int(r["job_id"])] + [str(r[c]) for c in cols] for _, r in df.iterrows()]
        out["props"] = [props[i] for i in sorted(props)]
        out["batches"] = told
        out["yi"] = list(s2._opt.yi)
        out["ninit"] = int(s2._opt._n_initial_points)
    return out


def check_restart(case):
    m = model()
    toks = Toks()
    k = case["k"]
    outs1 = pattern_outputs(dict(k=k, pattern=case["checkpoint"]), 0)
    outs2 = pattern_outputs(dict(k=k, pattern=case["pattern"]), 1)
    f1 = [bool(m.call(F_REPORTED, enc_obj(o, toks))) for o in outs1]
    failed = [i for i, o in enumerate(outs2) if m.call(F_REPORTED, enc_obj(o, toks))]
    ck = "none" if not any(f1) else "all_failed" if all(f1) else "mixed"
    sig = {"objectives": "single" if k == 1 else "multi", "ff": case["ff"], "checkpoint": ck}
    res = dict(ok=True, kind="oracle", clause="", nontrivial=ck != "none", sig=sig,
               desc=["surrogate=" + case["surrogate"], "ff=" + case["ff"], "objectives=" + sig["objectives"], "checkpoint=" + ck, "n0=%d" % case["n0"]])
    r = run_restart(case)
    if r["exc"]:
        obs = [True, failed, [], [], [], []]
    else:
        dens = [Fraction(float(c["x"])).denominator for c in r["props"]]
        scale = max(dens + [1])
        pr = enc_props(r["props"], scale)
        obs = [False, failed, r["rows"], [[0, 10 * scale], [0, 7], [0, len(CHOICES) - 1]], pr, pr]
    code = m.call(F_OKSEARCH, obs)
    if code:
        clause = "exception:" + r["exc"] if code == 1 else SEARCH_CLAUSE.get(code, str(code))
        return dict(res, ok=False, clause=clause, nontrivial=True,
                    detail=dict(checkpoint_outputs=show(outs1), outputs=show(outs2), stage=r["stage"], exc=r["exc"], trace=r.get("trace"), table=r.get("cells"), failed_jobs=failed))
    # correspondence: the optimizer's state = restart from the checkpoint's rows, then the batches told
    ckpt = [m.call(F_ONDONE, [True, enc_obj(o, toks)]) for o in outs1]
    dflt = 1.0 if k == 1 else tuple([1.0] * k)
    hist = [[enc_obj(outs2[j] if j < len(outs2) else dflt, toks) for j in b] for b in r["batches"]]
    pol = {"min": 0, "mean": 1, "ignore": 2}[case["ff"]]
    n0_, yi0 = m.call(F_RESTART, [True, pol, case["n0"], ckpt, []])
    if case["ff"] == "ignore" and r["yi_restart"] and not m.call(F_OKLIE, [enc_told(v) for v in r["yi_restart"]]):
        return dict(res, ok=False, kind="oracle", clause="marker_told_under_ignore", nontrivial=True,
                    detail=dict(checkpoint_outputs=show(outs1), told_by_fit_surrogate=show(r["yi_restart"])))
    if len(yi0) != len(r["yi_restart"]) or not all(same_told(a, v) for a, v in zip(yi0, r["yi_restart"])):
        return dict(res, ok=False, kind="corr", clause="restart_told", detail=dict(checkpoint_outputs=show(outs1), impl=show(r["yi_restart"]), model=yi0))
    ninit, yi = m.call(F_RESTART, [True, pol, case["n0"], ckpt, hist])
    if ninit != r["ninit"] or len(yi) != len(r["yi"]) or not all(same_told(a, v) for a, v in zip(yi, r["yi"])):
        return dict(res, ok=False, kind="corr", clause="optimizer_state", detail=dict(checkpoint_outputs=show(outs1), outputs=show(outs2), batches=r["batches"], impl=[r["ninit"], show(r["yi"])], model=[ninit, yi]))
    return res


def gen_restart(quick_n, thorough_n):
    def g(rng, tier):
        n = thorough_n if tier == "thorough" else quick_n * 2 if tier == "search" else quick_n
        for i in range(n):
            k = rng.choice([1, 1, 2])
            kinds = ["str", "str", "nan", "inf", "-inf"] + (["tuple_nan", "tuple_nan"] if k > 1 else [])
            ck = gen_pattern(rng, k, rng.randint(1, 5), ["mixed", "only", "first", "mixed", "only", "none"][i % 6], kinds)
            pat = gen_pattern(rng, k, rng.randint(1, 5), rng.choice(["mixed", "first", "only", "random"]), kinds)
            yield dict(k=k, seed=rng.randint(0, 10 ** 6), surrogate=(["ET", "ET", "DUMMY", "RF"] if tier == "thorough" else ["ET", "ET", "DUMMY"])[i % (4 if tier == "thorough" else 3)],
                       ff=["min", "mean", "ignore"][(i // 3) % 3], n0=rng.choice([1, 2, 3]), checkpoint=ck, pattern=pat, as_path=rng.random() < 0.5)
    return g


def shrink_restart(case):
    for key in ("checkpoint", "pattern"):
        pat = case[key]
        for i in range(len(pat)):
            if len(pat) > 1:
                yield dict(case, **{key: pat[:i] + pat[i + 1:]})
    if case["surrogate"] != "DUMMY" and case["surrogate"] != "ET":
        yield dict(case, surrogate="ET")


def streams(tier):
    th = tier == "thorough"
    return [
        Stream("on_done", gen_ondone(2500 if th else 500), check_ondone, shrink_ondone, timeout=30),
        Stream("cbo_tell", gen_cbotell(2000 if th else 400), check_cbotell, shrink_batch, timeout=60),
        Stream("filter_failures", gen_filter(3000 if th else 600), check_filter, shrink_ys, timeout=30),
        Stream("optimizer_tell", gen_opttell(2000 if th else 400), check_opttell, shrink_batches, timeout=60),
        Stream("regevo_tell", gen_regevo(400 if th else 100), check_regevo, shrink_hist, timeout=60),
        Stream("searches", gen_searches(170, 2400), check_search, shrink_search, timeout=300),
        Stream("peer_searches", gen_peers(120, 800), check_peers, shrink_peers, timeout=120),
        Stream("restart_searches", gen_restart(90, 600), check_restart, shrink_restart, timeout=120),
    ]
