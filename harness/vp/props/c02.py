"""C02 - Every proposed configuration is a member of the declared search space.

Tie (DESIGN.md 4 C02):
  * translator facts (facts(repo) -> Generated/Facts_C02.v): the option lists accepted by CBO.__init__ / Optimizer.__init__ /
    Optimizer.ask / cook_initial_point_generator read from the source by ast (fail closed) and cross-checked by calling the
    constructors; the inactive-value table obtained by CALLING get_inactive_value_of_hyperparameter (both copies) on one
    representative of every ConfigSpace hyperparameter class.  Property.v proves that the lists this plug-in enumerates
    (coq/theories/C02_Membership/Options.v - read by this file) and the model's canonicalisation table equal the facts.
  * search (trace acceptance at SEARCH level, the heart): real searches (CBO x surrogate x acquisition x multi-point strategy x
    initial design x problem kind x failure pattern x seed; RandomSearch, RegularizedEvolution, ExperimentalDesignSearch);
    every configuration the run-function receives is judged by the extracted oracle ok_C02 (kind, inclusive bounds on the exact
    value, declared choice, canonical inactive value; forbidden clauses / validity evaluated by ConfigSpace and passed in as
    booleans), search() must not raise (every tell accepted, every ask succeeds); for CBO every configuration is also mapped
    to the optimizer's Space and judged by the model's in_space / check_x (and compared with Space.__contains__).
  * branches (step-wise + acceptance on Optimizer.ask / tell): the extracted ask automaton predicts the branch and the next
    observable state, accept_ask checks where every returned point comes from, membership and tell's check.
  * decode / designs (functional): Space.inverse_transform after the clip of Optimizer._tell, the normalised decode of the
    initial designs, Space.__contains__ / check_x_in_space - against the model (exact for int / cat, c09's tolerances for
    reals); membership decided by the model's in_space on the implementation's exact values.
  * canon (functional): Space.deactivate_inactive_dimensions and the RandomSearch canonicalisation against Model.canon.
"""
import ast
import math
import os
import re
import tempfile
import warnings
from fractions import Fraction

import numpy as np

from .. import srcfacts
from ..driver import model
from ..runner import Stream
from . import c09

PROPERTY = "C02"
LEVEL = "proof"
COQ_DIRS = ("Common", "C09_Transforms")
TRUSTED = [
    "PARTIAL: the check is a proof about the decode / membership / canonicalisation / ask-dispatch logic deephyper adds; everything numeric "
    "below is an oracle of the model, and the search-level tie is trace acceptance on sampled option tuples (not exhaustive)",
    "library numerics are universally quantified oracles of the model, not modelled: surrogate fit / predict (sklearn forests, GP, "
    "gradient boosting), acquisition values, scipy fmin_l_bfgs_b, pymoo, ConfigSpace sampling, quasi-random sequences, libm log10 / pow, "
    "binary64 rounding; membership is established by the final decode (C02_decode_in_space holds for EVERY transformed vector)",
    "ConfigSpace decides which hyperparameters are active, whether a forbidden clause is violated and whether the active "
    "sub-configuration is valid (its condition objects' satisfied_by_value, parents first; ForbiddenClause.is_forbidden_value and Configuration "
    "on the active sub-configuration); the oracle receives these as booleans",
    "L-BFGS-B returns a point inside the bounds it is given (needed only for purely categorical spaces, where Optimizer._tell does not clip)",
    "the option lists are read from the source by ast and from Options.v by a regular expression (harness)",
    "c09.py helpers: dimension encoding, tokens for non-numeric categories, tolerances for real coordinates",
]
ASSUMPTIONS = [
    "category lists are type-homogeneous and duplicate-free",
    "problems use uniform / log-uniform int and float ranges, categorical, ordinal, constant hyperparameters (the conversion of the search stack); "
    "conditions / forbidden clauses only with the random design and tree / dummy surrogates (as the property states)",
    "integer bounds within +-2^47 (uniform) / 1..2^40 (log-uniform), float bounds finite and normal (as C09)",
    "MF (Mondrian forest) is accepted by the constructor but its optional dependency is not installed: skipped, recorded in the histogram",
    "run-functions return a float, a failure string 'F...' or nan / -inf (never raise)",
]
RULE = ("search: option tuples drawn from the product surrogate x acquisition x strategy x design x problem kind x failure pattern x workers by a "
        "seeded greedy pairwise cover (quick: the first rows of it; thorough: the whole cover x 2 seeds + constrained problems + the other "
        "search classes); 12-20 evaluations, n_points = 200; non-trivial = the run reached the model-based phase or used a non-random design "
        "or a constrained space. decode: generated spaces (c09 generators) x transformed vectors in range / on the bounds / slightly or far "
        "outside. branches: random ask/tell histories on Optimizer.")

F_ASK, F_ASK_PW, F_DES, F_DES_PW, F_CHECK, F_OK, F_CANON, F_CANON_ROW, F_ACCEPT, F_TELL_POST, F_IDENT, F_SELTAB = range(201, 213)
CLAUSES = {1: "names", 2: "kind", 3: "bounds", 4: "choice", 5: "inactive_not_canonical", 6: "forbidden", 7: "invalid_configuration"}
ACCEPT = {1: "ask:count", 2: "ask:provenance", 3: "ask:member", 4: "ask:tell_would_reject", 5: "ask:error_branch"}
BRANCH = {0: "single_init", 1: "single_random", 2: "single_model", 3: "no_model", 4: "multi_init", 5: "bad_n", 6: "one_shot", 7: "qLCB", 8: "constant_liar"}
q, fr, unq = c09.q, c09.fr, c09.unq

VERIF = os.path.dirname(os.path.dirname(os.path.dirname(os.path.dirname(os.path.abspath(__file__)))))


# ----------------------------------------------------------------------------------------------- option lists (Options.v)
def enum_options():
    """The lists this plug-in enumerates = the definitions of Options.v (Property.v proves them equal to the generated facts)."""
    with open(os.path.join(VERIF, "coq", "theories", "C02_Membership", "Options.v")) as f:
        src = f.read()
    out = {}
    for m in re.finditer(r"Definition enum_(\w+) : list string := \[(.*?)\]\.", src):
        out[m.group(1)] = re.findall(r'"([^"]*)"', m.group(2))
    for k in ("surrogates", "acq", "strategies", "designs", "acq_optimizers"):
        if not out.get(k):
            raise RuntimeError("Options.v: enum_%s not found" % k)
    return out


# ----------------------------------------------------------------------------------------------- translator facts
def _literal_list(node):
    if isinstance(node, (ast.List, ast.Tuple)) and all(isinstance(e, ast.Constant) and isinstance(e.value, str) for e in node.elts):
        return [e.value for e in node.elts]
    return None


def _find_func(tree, cls, name):
    for node in ast.walk(tree):
        if cls is None and isinstance(node, ast.FunctionDef) and node.name == name:
            return node
        if isinstance(node, ast.ClassDef) and node.name == cls:
            for b in node.body:
                if isinstance(b, ast.FunctionDef) and b.name == name:
                    return b
    return None


def _assigned_list(func, var):
    found = []
    for node in ast.walk(func):
        if isinstance(node, ast.Assign) and len(node.targets) == 1 and isinstance(node.targets[0], ast.Name) and node.targets[0].id == var:
            found.append(_literal_list(node.value))
    if len(found) != 1 or found[0] is None:
        return None
    return found[0]


def _not_in_list(func, var):
    """the literal list of `if <var> not in [ ... ]` inside func"""
    found = []
    for node in ast.walk(func):
        if isinstance(node, ast.Compare) and len(node.ops) == 1 and isinstance(node.ops[0], ast.NotIn) and isinstance(node.left, ast.Name) and node.left.id == var:
            found.append(_literal_list(node.comparators[0]))
    if len(found) != 1 or found[0] is None:
        return None
    return found[0]


def _module_dict(tree, var):
    for node in tree.body:
        if isinstance(node, ast.Assign) and len(node.targets) == 1 and isinstance(node.targets[0], ast.Name) and node.targets[0].id == var:
            v = node.value
            if isinstance(v, ast.Dict) and all(isinstance(k, ast.Constant) and isinstance(x, ast.Constant) for k, x in zip(v.keys, v.values)):
                return {k.value: x.value for k, x in zip(v.keys, v.values)}
    return None


def _representatives():
    import ConfigSpace.hyperparameters as csh

    reps = {
        "UniformIntegerHyperparameter": lambda: csh.UniformIntegerHyperparameter("h", lower=3, upper=9, default_value=5),
        "UniformFloatHyperparameter": lambda: csh.UniformFloatHyperparameter("h", lower=0.25, upper=4.0, default_value=1.5),
        "NormalIntegerHyperparameter": lambda: csh.NormalIntegerHyperparameter("h", mu=5, sigma=2, lower=3, upper=9, default_value=6),
        "NormalFloatHyperparameter": lambda: csh.NormalFloatHyperparameter("h", mu=1.0, sigma=0.5, lower=0.25, upper=4.0, default_value=1.5),
        "BetaIntegerHyperparameter": lambda: csh.BetaIntegerHyperparameter("h", alpha=2.0, beta=3.0, lower=3, upper=9),
        "BetaFloatHyperparameter": lambda: csh.BetaFloatHyperparameter("h", alpha=2.0, beta=3.0, lower=0.25, upper=4.0),
        "CategoricalHyperparameter": lambda: csh.CategoricalHyperparameter("h", choices=["b", "a", "c"], default_value="a"),
        "OrdinalHyperparameter": lambda: csh.OrdinalHyperparameter("h", sequence=["m", "l", "h"], default_value="l"),
        "Constant": lambda: csh.Constant("h", value="k"),
        "UnParametrizedHyperparameter": lambda: csh.UnParametrizedHyperparameter("h", value="k"),
    }
    # every concrete hyperparameter class ConfigSpace exports must have a representative (fail closed otherwise)
    abstract = {"Hyperparameter", "NumericalHyperparameter", "IntegerHyperparameter", "FloatHyperparameter"}
    exported = [n for n in dir(csh) if isinstance(getattr(csh, n), type) and issubclass(getattr(csh, n), csh.Hyperparameter) and n not in abstract]
    missing = sorted(set(exported) - set(reps))
    return reps, missing


def _classify_inactive(hp, val):
    import ConfigSpace.hyperparameters as csh

    if isinstance(hp, csh.NumericalHyperparameter):
        return 0, (0 if val == hp.lower and val != hp.upper and val != hp.default_value else None)
    if isinstance(hp, csh.CategoricalHyperparameter):
        return 1, (1 if val == hp.choices[0] and val != hp.default_value else None)
    if isinstance(hp, csh.OrdinalHyperparameter):
        return 2, (1 if val == hp.sequence[0] and val != hp.default_value else None)
    if isinstance(hp, csh.Constant):
        return 3, (2 if val == hp.value else None)
    return None, None


def facts(repo):
    src = os.path.join(repo, "src", "deephyper")
    info = {}
    t_cbo = ast.parse(open(os.path.join(src, "hpo", "_cbo.py")).read())
    t_opt = ast.parse(open(os.path.join(src, "skopt", "optimizer", "optimizer.py")).read())
    t_utl = ast.parse(open(os.path.join(src, "skopt", "utils.py")).read())
    f_init = _find_func(t_cbo, "CBO", "__init__")
    f_oinit = _find_func(t_opt, "Optimizer", "__init__")
    f_oask = _find_func(t_opt, "Optimizer", "ask")
    f_cook = _find_func(t_utl, None, "cook_initial_point_generator")
    if None in (f_init, f_oinit, f_oask, f_cook):
        return srcfacts.fail_closed("CBO.__init__ / Optimizer.__init__ / Optimizer.ask / cook_initial_point_generator not found"), info
    lists = dict(
        surrogates_allowed=_assigned_list(f_init, "surrogate_model_allowed"),
        acq_allowed=_assigned_list(f_init, "acq_func_allowed"),
        strategies_allowed=_assigned_list(f_init, "multi_point_strategy_allowed"),
        designs_allowed=_not_in_list(f_cook, "generator"),
        acq_optimizers_allowed=_not_in_list(f_oinit, "acq_optimizer"),
        opt_acq_allowed=_assigned_list(f_oinit, "allowed_acq_funcs"),
        opt_strategies_supported=_assigned_list(f_oask, "supported_strategies"),
    )
    maps = dict(map_acq=_module_dict(t_cbo, "MAP_acq_func"), map_strategy=_module_dict(t_cbo, "MAP_multi_point_strategy"))
    info.update(lists)
    info.update(maps)
    bad = [k for k, v in list(lists.items()) + list(maps.items()) if v is None]
    if bad:
        return srcfacts.fail_closed("unrecognised source shape for %s" % ", ".join(bad)), info

    # ---- cross-check with the imported modules / by trying the constructors ----
    import deephyper.hpo._cbo as cbo_mod
    from deephyper.evaluator import Evaluator
    from deephyper.hpo import CBO, HpProblem
    from deephyper.skopt import Optimizer

    if dict(cbo_mod.MAP_acq_func) != maps["map_acq"] or dict(cbo_mod.MAP_multi_point_strategy) != maps["map_strategy"]:
        return srcfacts.fail_closed("MAP_* literals differ from the imported module"), info

    async def _run(job):
        return 0.0

    pb = HpProblem()
    pb.add_hyperparameter((0.0, 1.0), "x")

    def cbo_accepts(strict=False, **kw):
        """listed value (strict=False): True unless the constructor refuses the VALUE of the option (its 'should have a value in'
        ValueError) - a failure later on (optional dependency, construction defect) is not this fact's business;
        unlisted value (strict=True): True only if the constructor returns normally"""
        ev = Evaluator.create(_run, method="serial")
        try:
            with warnings.catch_warnings():
                warnings.simplefilter("ignore")
                CBO(pb, ev, log_dir=tempfile.gettempdir(), **kw)
            return True
        except ValueError as e:
            return (not strict) and "should have a value in" not in str(e)
        except Exception:
            return not strict
        finally:
            try:
                ev.close()
            except Exception:
                pass

    def opt_accepts(strict=False, **kw):
        try:
            with warnings.catch_warnings():
                warnings.simplefilter("ignore")
                Optimizer([(0.0, 1.0)], base_estimator="DUMMY", n_initial_points=1, **kw)
            return True
        except ValueError:
            return False

    probes = [("surrogates_allowed", lambda v, s=False: cbo_accepts(s, surrogate_model=v)), ("acq_allowed", lambda v, s=False: cbo_accepts(s, acq_func=v)),
              ("strategies_allowed", lambda v, s=False: cbo_accepts(s, multi_point_strategy=v)),
              ("designs_allowed", lambda v, s=False: opt_accepts(s, initial_point_generator=v)),
              ("acq_optimizers_allowed", lambda v, s=False: opt_accepts(s, acq_optimizer=v)), ("opt_acq_allowed", lambda v, s=False: opt_accepts(s, acq_func=v))]
    for name, accepts in probes:
        for v in lists[name]:
            if not accepts(v):
                return srcfacts.fail_closed("%s: constructor refuses listed value %r" % (name, v)), info
        if accepts("__not_an_option__", True):
            return srcfacts.fail_closed("%s: constructor accepts an unlisted value" % name), info

    # ---- inactive-value table: CALL the function(s) on one representative of every hyperparameter class ----
    import deephyper.hpo._random as m_random
    import deephyper.hpo._regevo as m_regevo

    reps, missing = _representatives()
    if missing:
        return srcfacts.fail_closed("ConfigSpace exports hyperparameter classes without a representative: %s" % missing), info
    table = []
    for cname, mk in reps.items():
        with warnings.catch_warnings():
            warnings.simplefilter("ignore")
            hp = mk()
        vals = [m.get_inactive_value_of_hyperparameter(hp) for m in (m_random, m_regevo)]
        if vals[0] != vals[1]:
            return srcfacts.fail_closed("the two copies of get_inactive_value_of_hyperparameter disagree on %s" % cname), info
        kind, sel = _classify_inactive(hp, vals[0])
        if kind is None or sel is None:
            return srcfacts.fail_closed("get_inactive_value_of_hyperparameter(%s) = %r is not lower / first choice / value" % (cname, vals[0])), info
        table.append((cname, kind, sel))
    info["inactive_table"] = table

    cs, cl = srcfacts.coq_string, srcfacts.coq_list
    text = ""
    for k, v in lists.items():
        text += "Definition %s : list string := %s.\n" % (k, cl([cs(x) for x in v]))
    for k, v in maps.items():
        text += "Definition %s : list (string * string) := %s.\n" % (k, cl(["(%s, %s)" % (cs(a), cs(b)) for a, b in v.items()]))
    text += "(* (ConfigSpace class, class code 0 numerical 1 categorical 2 ordinal 3 constant, result 0 lower 1 first choice 2 value) *)\n"
    text += "Definition inactive_table : list (string * Z * Z) := %s.\n" % cl(["(%s, %d, %d)" % (cs(n), k, s) for n, k, s in table])
    return text, info


# ----------------------------------------------------------------------------------------------- problems
def build_problem(pdesc):
    import ConfigSpace as CS
    import ConfigSpace.hyperparameters as csh

    from deephyper.hpo import HpProblem

    pb = HpProblem()
    hps = {}
    for h in pdesc["hps"]:
        k, name = h["kind"], h["name"]
        if k == "int":
            hp = csh.UniformIntegerHyperparameter(name, lower=int(h["lo"]), upper=int(h["hi"]), log=bool(h.get("log")))
        elif k == "float":
            hp = csh.UniformFloatHyperparameter(name, lower=float(h["lo"]), upper=float(h["hi"]), log=bool(h.get("log")))
        elif k == "cat":
            hp = csh.CategoricalHyperparameter(name, choices=list(h["choices"]))
        elif k == "ord":
            hp = csh.OrdinalHyperparameter(name, sequence=list(h["choices"]))
        elif k == "const":
            hp = csh.Constant(name, value=h["value"])
        else:
            raise ValueError(k)
        hps[name] = pb.add_hyperparameter(hp)
    for c in pdesc.get("conditions", []):
        child, parent = hps[c["child"]], hps[c["parent"]]
        if c["op"] == "eq":
            pb.add_condition(CS.EqualsCondition(child, parent, c["value"]))
        elif c["op"] == "neq":
            pb.add_condition(CS.NotEqualsCondition(child, parent, c["value"]))
        elif c["op"] == "in":
            pb.add_condition(CS.InCondition(child, parent, list(c["value"])))
        elif c["op"] == "gt":
            pb.add_condition(CS.GreaterThanCondition(child, parent, c["value"]))
        elif c["op"] == "lt":
            pb.add_condition(CS.LessThanCondition(child, parent, c["value"]))
    for f in pdesc.get("forbiddens", []):
        clauses = []
        for name, vals in f:
            clauses.append(CS.ForbiddenInClause(hps[name], list(vals)) if isinstance(vals, list) else CS.ForbiddenEqualsClause(hps[name], vals))
        pb.add_forbidden_clause(clauses[0] if len(clauses) == 1 else CS.ForbiddenAndConjunction(*clauses))
    return pb


def pykind(v):
    if isinstance(v, (bool, np.bool_)):
        return "bool"
    if isinstance(v, (int, np.integer)):
        return "int"
    if isinstance(v, (float, np.floating)):
        return "float"
    if isinstance(v, str):
        return "str"
    return type(v).__name__


def choice_index(v, choices):
    for i, c in enumerate(choices):
        if pykind(v) == pykind(c) and v == c:
            return i
    return -1


def hp_decl(hp):
    """(model declaration, list of declared choices or None)"""
    import ConfigSpace.hyperparameters as csh

    if isinstance(hp, csh.UniformIntegerHyperparameter):
        return [0, int(hp.lower), int(hp.upper)], None
    if isinstance(hp, csh.UniformFloatHyperparameter):
        return [1, q(fr(float(hp.lower))), q(fr(float(hp.upper)))], None
    if isinstance(hp, csh.CategoricalHyperparameter):
        return [2, len(hp.choices)], list(hp.choices)
    if isinstance(hp, csh.OrdinalHyperparameter):
        return [2, len(hp.sequence)], list(hp.sequence)
    if isinstance(hp, csh.Constant):
        return [2, 1], [hp.value]
    raise ValueError("unsupported hyperparameter class %s" % type(hp).__name__)


def active_names(space, cfg):
    """Which hyperparameters are active in the full dictionary cfg: a hyperparameter is active when every condition on it is satisfied
    by the value of an ACTIVE parent (evaluated by ConfigSpace's own condition objects, parents first).  The values of inactive
    hyperparameters (the canonical placeholders) play no role."""
    memo = {}

    def sat(cond):
        if hasattr(cond, "components"):  # conjunctions
            r = [sat(c) for c in cond.components]
            return all(r) if type(cond).__name__ == "AndConjunction" else any(r)
        pname = cond.parent.name
        return act(pname) and bool(cond.satisfied_by_value({pname: cfg[pname]}))

    def act(name):
        if name not in memo:
            memo[name] = True  # (cycles do not exist in a valid space)
            memo[name] = all(sat(c) for c in space.parent_conditions_of[name])
        return memo[name]

    return {n for n in space.keys() if act(n)}


def judge_config(space, cfg):
    """One configuration the run-function received -> (clause code by the extracted oracle ok_C02, detail).
    ConfigSpace decides: activity (its condition objects), forbidden clauses (is_forbidden_value on the ACTIVE sub-configuration),
    validity (Configuration of the active sub-configuration)."""
    import ConfigSpace as CS

    names = list(space.keys())
    names_ok = isinstance(cfg, dict) and sorted(cfg.keys()) == sorted(names)
    forbidden, valid, active = False, True, set(names)
    why = ""
    if names_ok:
        try:
            active = active_names(space, cfg)
            sub = {n: cfg[n] for n in names if n in active}
            hit = [str(fc) for fc in space.forbidden_clauses if fc.is_forbidden_value(sub)]
            if hit:
                forbidden, why = True, "violates " + "; ".join(hit)
            else:
                with warnings.catch_warnings():
                    warnings.simplefilter("ignore")
                    CS.Configuration(space, values=sub)
        except CS.exceptions.ForbiddenValueError as e:
            forbidden, why = True, str(e)
        except Exception as e:  # illegal value, ...
            valid, why = False, "%s: %s" % (type(e).__name__, e)
    items = []
    for n in names:
        decl, choices = hp_decl(space[n])
        v = cfg.get(n) if isinstance(cfg, dict) else None
        kd = pykind(v)
        isint = kd == "int"
        isfloat = kd == "float" and math.isfinite(float(v))
        val = fr(v) if (isint or isfloat) else Fraction(0)
        idx = choice_index(v, choices) if choices is not None else -1
        items.append([decl, [isint, isfloat, q(val), idx, n in active]])
    code = model().call(F_OK, [bool(names_ok), items, bool(forbidden), bool(valid)])
    return code, dict(why=why, inactive=sorted(set(names) - active))


def placeholder_forbidden(space, cfg):
    """the FULL dictionary (inactive hyperparameters carrying their canonical value) is refused by ConfigSpace as forbidden although the
    active sub-configuration is not: the canonical inactive value of a conditional child coincides with a value a forbidden clause names"""
    import ConfigSpace as CS
    from ConfigSpace.util import deactivate_inactive_hyperparameters

    try:
        with warnings.catch_warnings():
            warnings.simplefilter("ignore")
            deactivate_inactive_hyperparameters(dict(cfg), space)
        return False
    except CS.exceptions.ForbiddenValueError:
        return judge_config(space, cfg)[0] == 0
    except Exception:
        return False


# ----------------------------------------------------------------------------------------------- search stream
TREE = ("RF", "ET", "TB", "RS", "DUMMY")
FAILS = ("none", "some", "first", "nan", "all", "const")
KINDS = ("int", "float", "cat", "ordnum", "mixed", "tiny")
WHY = [("disentangled_std", "disentangled_std"), ("has to be a regressor", "not_regressor"), ("n_estimators", "gbrt_n_estimators"),
       ("n_estimtaors", "gbrt_n_estimators"), ("in1d", "numpy_in1d"), ("Gradient not implemented for MES", "mes_gradient"),
       ("not within the bounds", "tell_rejects_point"), ("Not all points are within the bounds", "tell_rejects_point"),
       ("Can only compute distance for values within", "point_outside_space"), ("scikit-garden", "missing_dependency"),
       ("pvals", "boltzmann_nan"), ("object has no attribute 'ask'", "ask_before_search"), ("object has no attribute 'tell'", "ask_before_search"),
       ("__overwritten_by_the_caller__", "aliased_initial_point")]  # + "forbidden_inactive_placeholder", decided in check_search


def classify(msg):
    for pat, key in WHY:
        if pat in msg:
            return key
    return re.sub(r"[^A-Za-z ]+", "#", msg)[:48]


def objective_fn(case, record):
    pat = case.get("fail", "none")

    async def run(job):
        i = len(record)
        record.append(dict(job.parameters))
        if pat == "all":
            return "F_all"
        if pat == "some" and i % 3 == 1:
            return "F_some"
        if pat == "first" and i < 4:
            return "F_first"
        if pat == "nan" and i % 4 == 2:
            return float("nan") if i % 8 == 2 else float("-inf")
        off, sc = float(case.get("offset", 0.0)), float(case.get("scale", 1.0))
        if pat == "const":
            return off
        if pat == "moo":  # two objectives (the scalarisation path of the optimizer), now and then a failure
            if i % 5 == 3:
                return "F_moo"
            v = math.atan(float(i % 7)) + sum(0.1 for x in job.parameters.values() if x)
            return (off + sc * v, off - 0.5 * sc * v)
        # a deterministic objective of the position in the run and of the numeric values (any function will do)
        s = 0.0
        for v in job.parameters.values():
            if isinstance(v, (int, float)) and not isinstance(v, bool) and math.isfinite(v):
                s += math.atan(float(v))
        for name, val in (case.get("favor") or {}).items():  # bonus for declared values
            if job.parameters.get(name) == val:
                s += 3.0
        return off + sc * (s + 0.01 * ((i * 7) % 5))   # a large offset with a tiny spread, huge / tiny magnitudes: legal objectives

    return run


def make_search(case, pb, evaluator, log_dir, initial_points=None):
    from deephyper.hpo import CBO, ExperimentalDesignSearch, RandomSearch, RegularizedEvolution

    cls = case["search"]
    seed = case["seed"]
    if cls == "CBO":
        kw = dict(surrogate_model=case["surrogate"], acq_func=case["acq"], multi_point_strategy=case["strategy"],
                  initial_point_generator=case["design"], n_initial_points=case["n_init"], n_points=case.get("n_points", 200),
                  acq_optimizer=case.get("acq_optimizer", "auto"), acq_optimizer_freq=case.get("acq_optimizer_freq", 10))
        if case.get("acq_optimizer", "auto") in ("ga", "mixedga"):
            kw["acq_optimizer_freq"] = 1
        kw.update(case.get("options") or {})
        if initial_points is not None:
            kw["initial_points"] = initial_points
        return CBO(pb, evaluator, random_state=seed, log_dir=log_dir, verbose=0, **kw)
    if cls == "Random":
        return RandomSearch(pb, evaluator, random_state=seed, log_dir=log_dir, verbose=0)
    if cls == "RegEvo":
        return RegularizedEvolution(pb, evaluator, random_state=seed, log_dir=log_dir, verbose=0, population_size=case.get("pop", 6), sample_size=case.get("sample", 3))
    if cls == "EDS":
        return ExperimentalDesignSearch(pb, evaluator, random_state=seed, log_dir=log_dir, verbose=0, n_points=case["evals"], design=case["design"],
                                        initial_points=initial_points)
    raise ValueError(cls)


def canonical_value(hp):
    """the harness's own reading of the canonical inactive value (lower bound / first choice / value), for building caller's points"""
    import ConfigSpace.hyperparameters as csh

    if isinstance(hp, csh.NumericalHyperparameter):
        return hp.lower
    if isinstance(hp, csh.CategoricalHyperparameter):
        return hp.choices[0]
    if isinstance(hp, csh.OrdinalHyperparameter):
        return hp.sequence[0]
    return hp.value


def caller_points(pb, k, seed, form):
    """k valid full configurations of the problem (ConfigSpace sampling + canonical inactive values) in the form CBO accepts:
    'dict' (any key order) or 'list' (hyperparameter_names order).  Returns (what is passed to the constructor, the dicts expected)."""
    import copy

    sp = copy.deepcopy(pb.space)
    sp.seed(seed)
    with warnings.catch_warnings():
        warnings.simplefilter("ignore")
        confs = sp.sample_configuration(k)
    confs = confs if isinstance(confs, list) else [confs]
    names = pb.hyperparameter_names
    full = []
    for c in confs:
        d = dict(c)
        full.append({n: (getattr(d[n], "tolist", lambda v=d[n]: v)() if n in d else canonical_value(pb.space[n])) for n in names})
    if form == "list":
        return [[d[n] for n in names] for d in full], full
    return [{n: d[n] for n in sorted(d, reverse=True)} for d in full], full   # keys in another order than the problem's


def same_config(a, b):
    return sorted(a) == sorted(b) and all(pykind(a[n]) == pykind(b[n]) and a[n] == b[n] for n in a)


def case_sig(case):
    acq = case.get("acq", "")
    return dict(search=case["search"], surrogate=case.get("surrogate", ""), acq=acq, acq_d=acq.endswith("d"), acq_mes=acq.startswith("MES"),
                strategy=case.get("strategy", ""), design=case.get("design", ""), kind=case["problem"]["kind"],
                acq_optimizer=case.get("acq_optimizer", "auto"), constrained=bool(case["problem"].get("conditions") or case["problem"].get("forbiddens")),
                api=bool(case.get("api")), ncalls=len(case.get("calls") or [1]), points=(case["points"]["form"] + ("+mutated" if case["points"].get("mutate_after") else "")) if case.get("points") else "none",
                options=",".join(sorted((case.get("options") or {}).keys())))


def check_search(case):
    import logging

    from threadpoolctl import threadpool_limits

    from deephyper.evaluator import Evaluator
    from deephyper.skopt.utils import check_x_in_space

    import random as _random

    # libraries that draw from the global generators (pymoo's GA, ...) must not make a case depend on what the worker ran before
    np.random.seed(case["seed"] % (2 ** 32))
    _random.seed(case["seed"])
    sig = case_sig(case)
    desc = ["search=%s" % case["search"], "kind=%s" % sig["kind"], "fail=%s" % case.get("fail", "none"), "workers=%d" % case["workers"]]
    if case["search"] in ("CBO", "EDS"):
        desc.append("design=%s" % case["design"])
    if case["search"] == "CBO":
        desc += ["surrogate=%s" % case["surrogate"], "acq=%s" % case["acq"], "strategy=%s" % case["strategy"],
                 "pair=%s/%s" % (case["surrogate"], case["acq"]), "pair=%s/%s" % (case["surrogate"], case["strategy"])]
        if sig["acq_optimizer"] != "auto":
            desc.append("acq_optimizer=%s" % sig["acq_optimizer"])
    if case.get("api"):
        desc.append("entry=ask/tell")
    if case.get("calls"):
        desc.append("search_calls=%d" % len(case["calls"]))
    if case.get("points"):
        desc.append("initial_points=%s%s" % (case["points"]["form"], "+mutated" if case["points"].get("mutate_after") else ""))
    for k in sorted((case.get("options") or {}).keys()):
        desc.append("option=%s" % k)
    if case.get("reuse_problem"):
        desc.append("problem_reused")
    if "offset" in case or "scale" in case:
        desc.append("objectives=%g+-%g" % (case.get("offset", 0.0), case.get("scale", 1.0)))
    res = dict(ok=True, kind="oracle", clause="", sig=sig, nontrivial=False, desc=desc)
    pb = build_problem(case["problem"])
    record = []
    logging.disable(logging.CRITICAL)
    err = None
    search = None
    with tempfile.TemporaryDirectory(prefix="vp_c02_") as tmp, warnings.catch_warnings(), threadpool_limits(limits=1):
        warnings.simplefilter("ignore")
        evaluator = Evaluator.create(objective_fn(case, record), method="serial", method_kwargs=dict(num_workers=case["workers"]))
        try:
            if case.get("reuse_problem"):
                # one HpProblem (one ConfigurationSpace object, seeded by every search that uses it) serves another search first
                from deephyper.hpo import RandomSearch

                RandomSearch(pb, evaluator, random_state=case["seed"] + 1, log_dir=tmp, verbose=0).search(max_evals=case["reuse_problem"])
            given, expected = None, []
            if case.get("points"):
                given, expected = caller_points(pb, case["points"]["k"], case["seed"], case["points"]["form"])
            search = make_search(case, pb, evaluator, tmp, initial_points=given)
            if given is not None and case["points"].get("mutate_after"):
                # the caller goes on using (here: overwriting) the objects it handed over
                for pt in given:
                    if isinstance(pt, dict):
                        for n in list(pt):
                            pt[n] = "__overwritten_by_the_caller__"
                    else:
                        pt[:] = ["__overwritten_by_the_caller__"] * len(pt)
            if case.get("api"):
                # the public ask / tell interface, driven by the caller instead of search()
                run = objective_fn(case, record)
                done = 0
                while done < case["evals"]:
                    cfgs = search.ask(case["workers"])
                    told = []
                    for cfg in cfgs:
                        class _J:  # what the run-function reads
                            parameters = cfg
                        import asyncio

                        told.append((dict(cfg), asyncio.run(run(_J))))
                    done += len(cfgs)
                    search.tell(told)
                    if not cfgs:
                        break
            else:
                for k in (case.get("calls") or [case["evals"]]):   # one search object, several search() calls
                    search.search(max_evals=k)
        except Exception as e:
            err = e
        finally:
            try:
                evaluator.close()
            except Exception:
                pass
    if err is not None:
        why = classify(str(err))
        if why == "missing_dependency":
            return dict(res, desc=desc + ["skipped_missing_dependency=%s" % case.get("surrogate")])
        # a configuration outside the space that was handed out before the failure is the more precise verdict
        for i, cfg in enumerate(record):
            code, det = judge_config(pb.space, cfg)
            if code != 0:
                clause = CLAUSES.get(code, "clause%d" % code)
                return dict(res, ok=False, clause=clause, sig=dict(sig, clause=clause), nontrivial=True,
                            detail=dict(index=i, config=repr(cfg), then_search_raised="%s: %s" % (type(err).__name__, str(err)[:300]), **det))
        if type(err).__name__ == "ForbiddenValueError" and any(placeholder_forbidden(pb.space, cfg) for cfg in record):
            why = "forbidden_inactive_placeholder"
        clause = "search_raises:" + type(err).__name__
        return dict(res, ok=False, clause=clause, sig=dict(sig, clause=clause, why=why), nontrivial=True,
                    detail=dict(error="%s: %s" % (type(err).__name__, str(err)[:600]), evaluated=len(record), last=repr(record[-3:])))
    # ---- every configuration the run-function received ----
    space = pb.space
    n_inactive_model = 0
    for i, cfg in enumerate(record):
        code, det = judge_config(space, cfg)
        if det["inactive"] and i >= case.get("n_init", case.get("pop", 0)):
            n_inactive_model += 1
        if code != 0:
            clause = CLAUSES.get(code, "clause%d" % code)
            return dict(res, ok=False, clause=clause, sig=dict(sig, clause=clause), nontrivial=True,
                        detail=dict(index=i, config=repr(cfg), phase="initial" if i < case.get("n_init", 0) else "model", **det))
    need = (case.get("calls") or [case["evals"]])[0] + int(case.get("reuse_problem") or 0)
    if len(record) < need:
        return dict(res, ok=False, clause="too_few_evaluations", sig=dict(sig, clause="too_few_evaluations"), detail=dict(evaluated=len(record)))
    if case.get("points"):
        off = int(case.get("reuse_problem") or 0)
        got = record[off:off + len(expected)]
        if len(got) != len(expected) or not all(same_config(a, b) for a, b in zip(got, expected)):
            return dict(res, ok=False, kind="corr", clause="initial_points_provenance", sig=dict(sig, clause="initial_points_provenance"),
                        detail=dict(expected=repr(expected), got=repr(got)))
    if case["search"] in ("CBO", "EDS") and getattr(search, "_opt", None) is None:
        # fail closed: the optimizer-level judgement below must not be skipped silently
        return dict(res, ok=False, kind="corr", clause="optimizer_not_observable", sig=dict(sig, clause="optimizer_not_observable"))
    if sig["constrained"]:
        desc.append("inactive_after_initial_phase=%s" % ("0" if n_inactive_model == 0 else "1-3" if n_inactive_model <= 3 else "4+"))
        desc.append("forbidden_clauses=%d" % len(case["problem"].get("forbiddens", [])))
    nt = sig["constrained"] or case["search"] != "CBO" or case.get("design") != "random"
    # ---- CBO: the same points in the optimizer's own Space, judged by the model's in_space / check_x ----
    if case["search"] in ("CBO", "EDS") and getattr(search, "_opt", None) is not None:
        opt = search._opt
        nt = nt or len(opt.models) > 0
        desc.append("models=%s" % ("0" if not opt.models else "1+"))
        dims = [c09.describe_dim(dm) for dm in opt.space.dimensions]
        toks = [c09.cat_tokens(d) if d["kind"] == "cat" else None for d in dims]
        names = opt.space.dimension_names
        rows = [[cfg[n] for n in names] for cfg in record]
        rows_q = [[q(c09.cell_to_model(d, t, v)) for d, t, v in zip(dims, toks, row)] for row in rows]
        per, all_code, wf = model().call(F_CHECK, [[c09.enc_dim(d) for d in dims], rows_q])
        if not wf:
            return dict(res, ok=False, kind="corr", clause="space_not_wellformed", detail=dict(dims=dims))
        for i, ((member, cont, code), row) in enumerate(zip(per, rows)):
            if not member or code != 0:
                clause = "member_of_optimizer_space" if not member else "tell_check_rejects"
                return dict(res, ok=False, clause=clause, sig=dict(sig, clause=clause), detail=dict(index=i, row=repr(row), dims=dims))
            impl = row in opt.space
            if impl != bool(cont):
                return dict(res, ok=False, kind="corr", clause="contains_vs_model", detail=dict(index=i, row=repr(row), impl=impl, model=cont))
        try:
            check_x_in_space(rows, opt.space)
            impl_code = 0
        except ValueError as e:
            impl_code = 1 if "bounds" in str(e) else 2
        if impl_code != all_code:
            return dict(res, ok=False, kind="corr", clause="check_x_vs_model", detail=dict(impl=impl_code, model=all_code))
    return dict(res, nontrivial=bool(nt), desc=desc)


# ---- problems ----
UNSORTED_ORDINALS = [[64, 16, 32, 128], [0.9, 0.5, 0.99, 0.0], [3, 1, 2], [2.5, -1.5, 0.0], [100, 10, 1000], [0.2, 0.1, 0.5]]


def gen_hp(rng, kind, name):
    if kind == "int":
        c = rng.random()
        if c < 0.25:
            lo = rng.choice([0, 1, -3, 5])
            return dict(kind="int", name=name, lo=lo, hi=lo + rng.choice([1, 2, 3, 10]))
        if c < 0.45:
            return dict(kind="int", name=name, lo=-rng.randint(1, 2 ** 31), hi=rng.randint(1, 2 ** 31))
        if c < 0.75:
            lo = rng.choice([1, 1, 2, 10, 16])
            return dict(kind="int", name=name, lo=lo, hi=lo * rng.choice([2, 10, 1000, 10 ** 6, 2 ** 20]) + rng.choice([0, 0, 1, 7]), log=True)
        lo = rng.randint(-1000, 1000)
        return dict(kind="int", name=name, lo=lo, hi=lo + rng.randint(1, 5000))
    if kind == "float":
        c = rng.random()
        if c < 0.2:
            lo, hi = rng.choice([(0.1, 0.3), (0.7, 0.9), (-0.3, -0.1), (1 / 3, 2 / 3), (0.1, 0.7)])
            return dict(kind="float", name=name, lo=lo, hi=hi)
        if c < 0.4:
            lo, hi = rng.choice([(1e-5, 1e7), (1e-12, 1e-9), (1e-3, 0.1), (0.001, 1000.0), (1e-8, 1.0), (3e-4, 7e2), (1.0, 1e12)])
            return dict(kind="float", name=name, lo=lo, hi=hi, log=True)
        if c < 0.55:  # (ConfigSpace rounds bounds to 13 decimal places and refuses ranges that collapse)
            lo = rng.choice([-1, 1]) * 10.0 ** rng.uniform(-8, 12)
            return dict(kind="float", name=name, lo=lo, hi=lo + abs(lo) * 10.0 ** rng.uniform(-3, 2))
        if c < 0.7:
            lo = 10.0 ** rng.uniform(-9, 3)
            return dict(kind="float", name=name, lo=lo, hi=lo * 10.0 ** rng.uniform(0.01, 9), log=True)
        lo = rng.uniform(-10, 10)
        return dict(kind="float", name=name, lo=lo, hi=lo + rng.uniform(0.001, 20))
    if kind == "cat":
        c = rng.random()
        if c < 0.6:
            return dict(kind="cat", name=name, choices=rng.sample(["relu", "tanh", "sigmoid", "adam", "sgd", "a", "B", "zeta", "10", "None"], rng.choice([2, 3, 3, 5, 8])))
        if c < 0.8:
            return dict(kind="cat", name=name, choices=rng.choice([[True, False], [False, True]]))
        return dict(kind="ord", name=name, choices=rng.sample(["low", "mid", "high", "xl", "a", "Z"], rng.choice([2, 3, 4])))
    if kind == "ordnum":
        c = rng.random()
        if c < 0.5:
            return dict(kind="ord", name=name, choices=rng.choice([[1, 2, 4, 16], [8, 16, 32, 64, 128], [0, 1], [-5, 0, 5], [3, 1, 2], [10, 100, 1000],
                                                                   [64, 16, 32, 128], [5, -5, 0], [1000, 10, 100]]))   # (ordinals define their own ranking: any order)
        if c < 0.8:
            return dict(kind="ord", name=name, choices=rng.choice([[0.1, 0.5, 0.9], [1e-3, 1e-2, 1e-1], [-1.5, 2.5], [0.25, 0.5, 1.0, 2.0],
                                                                   [0.9, 0.5, 0.99, 0.0], [2.5, -1.5], [0.2, 0.1, 0.5]]))
        return dict(kind="const", name=name, value=rng.choice([7, 2.5, "fixed", 0]))
    raise ValueError(kind)


def gen_problem(rng, kind):
    if kind in ("int", "float", "cat", "ordnum"):
        n = rng.randint(1, 3)
        hps = [gen_hp(rng, kind, "%s%d" % (kind[0], j)) for j in range(n)]
        if kind in ("cat", "ordnum") and rng.random() < 0.7:  # lbfgs / GP need something continuous now and then
            hps.append(gen_hp(rng, "float", "x%d" % n))
    elif kind == "tiny":  # finite, very small spaces: duplicate filtering and exhaustion paths
        hps = [dict(kind="int", name="i0", lo=0, hi=rng.choice([1, 2, 3])), dict(kind="cat", name="c1", choices=["a", "b"][: rng.choice([2, 2])])]
        if rng.random() < 0.5:
            hps.append(dict(kind="const", name="k2", value=rng.choice([1, "c"])))
    else:
        ks = ["int", "float", "cat", "ordnum", rng.choice(["int", "float"]), rng.choice(["cat", "ordnum"])]
        rng.shuffle(ks)
        ks = ks[: rng.randint(3, 6)]
        hps = [gen_hp(rng, k, "%s%d" % (k[0], j)) for j, k in enumerate(ks)]
    return dict(kind=kind, hps=hps)


def gen_edge_problem(rng):
    """numeric edge values and falsy values in legal places: integer ranges past 2^53 / up to 2^62, a float range starting at 0.0, the
    values 0 / 0.0 / False / '' as bounds, choices and constants"""
    hps = [dict(kind="int", name="big", lo=0, hi=2 ** 62),
           dict(kind="int", name="past53", lo=2 ** 53 + 1, hi=2 ** 53 + rng.choice([3, 9, 1000])),
           dict(kind="int", name="neg", lo=-(2 ** 47), hi=0),
           dict(kind="float", name="zero", lo=0.0, hi=rng.choice([1e-3, 1.0, 7.5])),
           dict(kind="cat", name="flag", choices=rng.choice([[False, True], [True, False]])),
           dict(kind="cat", name="empty", choices=["", "a", " "]),
           dict(kind="ord", name="zo", choices=rng.choice([[0, 1, 2], [0.0, 0.5], [-1, 0]])),
           dict(kind="const", name="k0", value=rng.choice([0, 0.0, ""]))]
    rng.shuffle(hps)
    return dict(kind="edge", hps=hps[: rng.randint(4, 8)])


def gen_constrained(rng):
    """conditions + forbidden clauses (only with the random design and tree / dummy surrogates)"""
    hps = [dict(kind="cat", name="a", choices=["x", "y", "z"]),
           gen_hp(rng, "int", "b"), gen_hp(rng, "float", "c"),
           dict(kind="ord", name="o", choices=rng.choice([["lo", "mid", "hi"], [1, 2, 4], [0.5, 1.5]])),
           dict(kind="cat", name="d", choices=["p", "q"]),
           dict(kind="const", name="k", value=rng.choice([7, "k"]))]
    if rng.random() < 0.5:
        hps.append(dict(kind="int", name="e", lo=0, hi=5))
    conds = [dict(child="b", parent="a", op="eq", value="x"), dict(child="c", parent="a", op="in", value=["x", "y"])]
    if rng.random() < 0.6:  # a numeric ordinal whose sequence is not increasing, as a (possibly nested) conditional child
        hps.append(dict(kind="ord", name="w", choices=rng.choice(UNSORTED_ORDINALS)))
        conds.append(dict(child="w", parent="d", op="eq", value="p") if rng.random() < 0.5 else dict(child="w", parent="a", op="in", value=["y", "z"]))
    if rng.random() < 0.7:
        conds.append(dict(child="d", parent="o", op=rng.choice(["neq", "eq"]), value=hps[3]["choices"][0]))
    if any(h["name"] == "e" for h in hps):
        conds.append(dict(child="k", parent="e", op=rng.choice(["gt", "lt"]), value=2))
    forb = []
    if rng.random() < 0.8:
        forb.append([["a", "x"], ["o", hps[3]["choices"][-1]]])
    if rng.random() < 0.5:
        forb.append([["o", hps[3]["choices"][1]], ["a", ["y", "z"]]])
    if not forb:
        forb.append([["a", "z"], ["o", hps[3]["choices"][0]]])
    return dict(kind="constrained", hps=hps, conditions=conds, forbiddens=forb)


def inexact_log_lower(rng):
    """a lower bound of a log-uniform float whose round trip through LogN(10) comes back ABOVE it (10 ** log10(low) > low): the
    clip of Real.inverse_transform does not repair it, only the canonicalisation of inactive values does.  Chosen by TESTING."""
    for _ in range(1000):
        lo = rng.randint(1, 9) * 10.0 ** rng.randint(-6, -1) if rng.random() < 0.7 else round(rng.uniform(1, 10), rng.choice([1, 2])) * 10.0 ** rng.randint(-6, -1)
        with np.errstate(all="ignore"):
            back = float(10 ** (np.log10(np.asarray([lo], dtype=float)) / np.log10(10))[0])
        if back > lo:
            return lo
    return 0.002


def gen_conditional_children(rng):
    """conditions only: the children are a log-uniform float with an inexact lower bound, a log-uniform integer, a uniform float, a
    categorical; the parent value that deactivates them is favoured by the objective (favor)"""
    lo = inexact_log_lower(rng)
    lo2 = inexact_log_lower(rng)
    hps = [dict(kind="cat", name="opt", choices=["sgd", "adam", "lion"]),
           dict(kind="float", name="mom", lo=lo, hi=lo * 10.0 ** rng.randint(1, 3) * rng.choice([1.0, 4.5]), log=True),
           dict(kind="int", name="layers", lo=1, hi=8),
           dict(kind="float", name="lr", lo=lo2, hi=lo2 * 1000.0, log=True),
           dict(kind="int", name="warm", lo=rng.choice([2, 3, 10]), hi=5000, log=True),
           dict(kind="float", name="decay", lo=0.1, hi=0.7),
           dict(kind="cat", name="nest", choices=["no", "yes"]),
           dict(kind="ord", name="width", choices=rng.choice(UNSORTED_ORDINALS))]   # a numeric ordinal whose sequence is not increasing
    conds = [dict(child="mom", parent="opt", op="eq", value="sgd"),
             dict(child="width", parent="opt", op="in", value=rng.choice([["sgd"], ["lion"], ["sgd", "lion"]])),
             dict(child="warm", parent="opt", op="in", value=["sgd", "lion"]),
             dict(child="nest", parent="opt", op="neq", value="adam"),
             dict(child="decay", parent="layers", op=rng.choice(["gt", "lt"]), value=4)]
    if rng.random() < 0.5:  # the unconditional log-uniform float becomes a child too
        conds.append(dict(child="lr", parent="layers", op="gt", value=2))
    return dict(kind="constrained", hps=hps, conditions=conds, forbiddens=[]), {"opt": "adam"}


def gen_forbidden(rng, mixed):
    """forbidden clauses over hyperparameters WITHOUT conditional children (optionally next to conditions); the objective favours the
    forbidden values one by one, so that mutations of good parents land on the forbidden combination"""
    hps = [dict(kind="cat", name="prec", choices=["fp32", "bf16", "fp16"]),
           dict(kind="ord", name="batch", choices=[16, 32, 64, 128]),
           dict(kind="float", name="lr", lo=1e-4, hi=0.1, log=True),
           dict(kind="int", name="layers", lo=1, hi=rng.choice([3, 6]))]
    conds = []
    forb = [[["prec", "fp16"], ["batch", 128]]]
    favor = {"prec": "fp16", "batch": 128}
    if rng.random() < 0.5:
        forb.append([["layers", 1], ["prec", ["bf16", "fp16"]]])
        favor["layers"] = 1
    if mixed:
        hps += [dict(kind="cat", name="sched", choices=["none", "cos", "step"]), dict(kind="int", name="period", lo=2, hi=50),
                dict(kind="float", name="gamma", lo=inexact_log_lower(rng), hi=0.99, log=True)]
        conds = [dict(child="period", parent="sched", op="in", value=["cos", "step"]), dict(child="gamma", parent="sched", op="eq", value="step")]
        forb.append([["sched", "cos"], ["batch", 16]])        # a clause over a parent and a childless hyperparameter
        if rng.random() < 0.5:
            forb.append([["period", 50], ["prec", "fp32"]])   # a clause over a conditional child (not its canonical inactive value: F48)
    return dict(kind="constrained", hps=hps, conditions=conds, forbiddens=forb), favor


def pairwise_rows(rng, axes, extra=0):
    """Greedy seeded pairwise cover of the product of the axes (dict name -> values); `extra` random rows are appended."""
    names = list(axes)
    uncovered = set()
    for i in range(len(names)):
        for j in range(i + 1, len(names)):
            for a in axes[names[i]]:
                for b in axes[names[j]]:
                    uncovered.add((i, a, j, b))
    rows = []
    while uncovered:
        best, gain = None, -1
        seed_pair = rng.choice(sorted(uncovered, key=repr))
        for _ in range(40):
            row = {n: rng.choice(axes[n]) for n in names}
            row[names[seed_pair[0]]], row[names[seed_pair[2]]] = seed_pair[1], seed_pair[3]
            g = sum(1 for i in range(len(names)) for j in range(i + 1, len(names)) if (i, row[names[i]], j, row[names[j]]) in uncovered)
            if g > gain:
                best, gain = row, g
        rows.append(best)
        for i in range(len(names)):
            for j in range(i + 1, len(names)):
                uncovered.discard((i, best[names[i]], j, best[names[j]]))
    for _ in range(extra):
        rows.append({n: rng.choice(axes[n]) for n in names})
    return rows


def gen_search(quick_n, thorough_seeds=2):
    def gen(rng, tier):
        opts = enum_options()
        import deephyper.skopt.learning as learning

        have_mf = hasattr(learning, "MondrianForestRegressor")  # optional dependency (scikit-garden)
        axes = dict(surrogate=[s for s in opts["surrogates"] if s != "MF" or have_mf], acq=opts["acq"], strategy=opts["strategies"], design=opts["designs"],
                    kind=list(KINDS), fail=list(FAILS), workers=[1, 2, 3, 4])
        rows = pairwise_rows(rng, axes, extra=0 if tier != "thorough" else 110)
        if tier == "quick":
            rows = rows[:quick_n]
        elif tier == "search":
            rows = rows[:12]
        seeds = 1 if tier != "thorough" else thorough_seeds
        cases = []
        for r in rows:
            for s in range(seeds):
                cases.append(dict(search="CBO", surrogate=r["surrogate"], acq=r["acq"], strategy=r["strategy"], design=r["design"],
                                  problem=gen_problem(rng, r["kind"]), fail=r["fail"], workers=r["workers"], seed=rng.randint(0, 2 ** 20),
                                  evals=rng.randint(12, 20), n_init=rng.randint(3, 6), n_points=200))
        if not have_mf:  # recorded as skipped (the constructor accepts the name, the dependency is missing)
            cases.append(dict(search="CBO", surrogate="MF", acq="UCB", strategy="cl_max", design="random", problem=gen_problem(rng, "float"),
                              fail="none", workers=1, seed=1, evals=6, n_init=3, n_points=50))
        # constrained spaces: random design, tree / dummy surrogates
        nc = 6 if tier == "quick" else 4 if tier == "search" else 60
        for i in range(nc):
            cases.append(dict(search="CBO", surrogate=rng.choice(TREE), acq=rng.choice(opts["acq"]), strategy=rng.choice(opts["strategies"]),
                              design="random", problem=gen_constrained(rng), fail=rng.choice(FAILS), workers=rng.choice([1, 2, 3, 4]),
                              seed=rng.randint(0, 2 ** 20), evals=rng.randint(12, 20), n_init=rng.randint(3, 6), n_points=200))
        # conditional children that do not round-trip exactly (log-uniform floats with inexact lower bounds, ...): tree surrogates, enough
        # model-based proposals with the children inactive (the objective favours the deactivating parent value)
        nk = 6 if tier == "quick" else 3 if tier == "search" else 48
        for i in range(nk):
            pbd, favor = gen_conditional_children(rng)
            cases.append(dict(search="CBO", surrogate=["ET", "RF", "ET", "TB"][i % 4], acq=rng.choice(["UCB", "UCBd", "EI", "gp_hedge"]),
                              strategy=["cl_max", "topk", "qUCB", "boltzmann", "cl_min", "cl_mean", "qUCBd", "cl_max"][i % 8],
                              design="random", problem=pbd, favor=favor, fail=rng.choice(["none", "none", "some"]), workers=[1, 3, 2, 4][i % 4],
                              seed=rng.randint(0, 2 ** 20), evals=rng.randint(20, 26), n_init=rng.randint(4, 5), n_points=200))
        # forbidden clauses over childless hyperparameters / mixed with conditions: evolution phase of RegularizedEvolution (small
        # population, many cheap evaluations), RandomSearch, CBO
        nf = 6 if tier == "quick" else 2 if tier == "search" else 40
        for i in range(nf):
            pbd, favor = gen_forbidden(rng, mixed=i % 2 == 1)
            cases.append(dict(search="RegEvo", problem=pbd, favor=favor, fail=rng.choice(["none", "none", "some"]), workers=rng.choice([1, 2, 4]),
                              seed=rng.randint(0, 2 ** 20), evals=rng.randint(80, 150), pop=rng.randint(5, 10), sample=rng.choice([2, 3])))
            if i % 3 == 0:
                pbd, favor = gen_forbidden(rng, mixed=i % 2 == 0)
                cases.append(dict(search="Random", problem=pbd, favor=favor, fail="none", workers=rng.choice([1, 4]), seed=rng.randint(0, 2 ** 20), evals=rng.randint(60, 100)))
                cases.append(dict(search="CBO", surrogate=rng.choice(["ET", "RF"]), acq="UCB", strategy=rng.choice(["cl_max", "qUCB", "topk"]), design="random",
                                  problem=pbd, favor=favor, fail="none", workers=2, seed=rng.randint(0, 2 ** 20), evals=24, n_init=5, n_points=200))
        # blind-spot sweep: several search() calls on one object, one problem serving two searches, the public ask / tell entry point,
        # caller's initial points (both forms, overwritten by the caller afterwards), non-default constructor options, two objectives,
        # numeric edge / falsy values
        nsw = 12 if tier == "quick" else 6 if tier == "search" else 96
        for i in range(nsw):
            fam = i % 12
            sur = ["ET", "RF", "GP", "DUMMY"][(i // 12 + fam) % 4]
            pbd = gen_edge_problem(rng) if fam in (9, 10) else gen_conditional_children(rng)[0] if fam in (0, 4) and sur != "GP" else gen_problem(rng, rng.choice(["mixed", "float", "ordnum", "int", "cat"]))
            c = dict(search="CBO", surrogate=sur, acq=rng.choice(["UCB", "UCBd", "EI", "PI", "gp_hedge"]), strategy=rng.choice(opts["strategies"]), design="random",
                     problem=pbd, fail=rng.choice(["none", "none", "some", "const"]), workers=rng.choice([1, 2, 3]), seed=rng.randint(0, 2 ** 20),
                     evals=rng.randint(12, 18), n_init=rng.randint(3, 5), n_points=200)
            if fam == 0:
                c.update(calls=[rng.randint(5, 8), rng.randint(4, 8), rng.randint(3, 6)], reuse_problem=rng.choice([0, 4]))
            elif fam == 1:
                c = dict(search=rng.choice(["RegEvo", "Random"]), problem=gen_forbidden(rng, mixed=True)[0], fail="none", workers=2, seed=c["seed"],
                         evals=12, pop=5, sample=2, calls=[12, 14, 12], reuse_problem=3)
            elif fam == 2:
                c.update(api=True)
            elif fam == 3:
                c = dict(search=["RegEvo", "Random"][(i // 12) % 2], problem=gen_forbidden(rng, mixed=bool(i % 2))[0], fail="some", workers=3, seed=c["seed"],
                         evals=30, pop=5, sample=2, api=True)
            elif fam == 4:
                c.update(points=dict(k=rng.randint(2, 4), form="dict", mutate_after=True), n_init=5)
            elif fam == 5:
                c.update(points=dict(k=rng.randint(2, 4), form="list", mutate_after=True), n_init=5, design=rng.choice(["random", "lhs", "sobol"]))
            elif fam == 6:   # (n_jobs > 1 with the GP surrogate starts worker processes at every fit: tens of seconds; trees only)
                c.update(options=dict(n_jobs=2, update_prior=True), surrogate=rng.choice(["ET", "RF"]), workers=1, strategy="qUCB", evals=12)
            elif fam == 7:
                c.update(options=dict(filter_duplicated=False, objective_scaler=rng.choice(["minmax", "identity", "quantile-uniform"]),
                                      scheduler={"type": "periodic-exp-decay", "period": 5, "rate": 0.1}, kappa=rng.choice([0.0, 10.0]), xi=0.0))
            elif fam == 8:
                c.update(fail="moo", options=dict(moo_scalarization_strategy=rng.choice(["Chebyshev", "Linear", "PBI"])))
            elif fam == 9:
                c.update(design=rng.choice(opts["designs"]))
            elif fam == 10:
                c = dict(search="EDS", design=rng.choice(opts["designs"]), problem=pbd, fail="none", workers=2, seed=c["seed"], evals=12,
                         points=dict(k=2, form="dict", mutate_after=False))
            elif fam == 11:
                c.update(options=dict(acq_optimizer_freq=1, n_jobs=2), design=rng.choice(["lhs", "grid"]), calls=[7, 6], surrogate=rng.choice(["ET", "DUMMY"]), workers=1)
            cases.append(c)
        # told histories with objectives far from 0 relative to their spread / of huge or tiny magnitude / all equal, for every multi-point
        # strategy and objective scaler (identity: GP, GBRT, HGBRT or objective_scaler="identity"; [0, 1]: the forests' default)
        SCALES = [(-1000.0, 0.5), (5000.0, 1.0), (20000.0, 1.0), (-300.0, 0.1), (1e9, 1e-3), (0.0, 1e-9), (0.0, 1e12), (-1e15, 1.0)]
        MODELS = [("GP", {}), ("HGBRT", {}), ("ET", {"objective_scaler": "identity"}), ("GBRT", {}), ("RF", {"objective_scaler": "minmax"}),
                  ("ET", {}), ("RS", {"objective_scaler": "identity"}), ("TB", {"objective_scaler": "quantile-uniform"})]
        nsc = 10 if tier == "quick" else 4 if tier == "search" else 112
        for i in range(nsc):
            sur, o = MODELS[i % len(MODELS)]
            off, sc = SCALES[(i // 2 + i) % len(SCALES)] if i >= 4 else SCALES[i % 4]
            strategy = "boltzmann" if i % 2 == 0 else opts["strategies"][(i // 2) % len(opts["strategies"])]
            cases.append(dict(search="CBO", surrogate=sur, acq=rng.choice(["UCB", "EI", "UCBd", "PI"]), strategy=strategy, design="random",
                              problem=gen_problem(rng, rng.choice(["mixed", "float", "int"])), fail=rng.choice(["none", "none", "some", "const"]),
                              workers=rng.choice([2, 3, 4]), seed=rng.randint(0, 2 ** 20), evals=rng.randint(14, 20), n_init=rng.randint(3, 5), n_points=200,
                              options=dict(o), offset=off, scale=sc))
        # the other search classes
        no = 2 if tier == "quick" else 1 if tier == "search" else 14
        for i in range(no):
            for cls in ("Random", "RegEvo"):
                pbd = gen_constrained(rng) if i % 2 == 0 else gen_problem(rng, rng.choice(KINDS))
                cases.append(dict(search=cls, problem=pbd, fail=rng.choice(FAILS), workers=rng.choice([1, 2, 4]), seed=rng.randint(0, 2 ** 20),
                                  evals=rng.randint(14, 24), pop=rng.choice([4, 6]), sample=rng.choice([2, 3])))
        for d in (opts["designs"] if tier != "search" else opts["designs"][:2]):
            for i in range(1 if tier != "thorough" else 4):
                cases.append(dict(search="EDS", design=d, problem=gen_problem(rng, rng.choice(KINDS)), fail=rng.choice(FAILS), workers=rng.choice([1, 3]),
                                  seed=rng.randint(0, 2 ** 20), evals=rng.randint(9, 20)))
        # acquisition optimizers other than "auto" (thorough only; constructor-accepted, outside the property's product)
        if tier == "thorough":
            for ao in opts["acq_optimizers"]:
                for i in range(6):
                    cases.append(dict(search="CBO", surrogate=rng.choice(["RF", "ET", "GP"]), acq=rng.choice(["UCB", "EI", "UCBd"]), strategy=rng.choice(["cl_max", "qUCB"]),
                                      design="random", problem=gen_problem(rng, rng.choice(["float", "int", "ordnum", "mixed"])), fail="none", workers=2,
                                      seed=rng.randint(0, 2 ** 20), evals=12, n_init=4, n_points=100, acq_optimizer=ao, acq_optimizer_freq=1))
        return cases
    return gen


def shrink_search(case):
    if case["evals"] > 6:
        yield dict(case, evals=max(6, case["evals"] // 2))
    if case.get("fail", "none") != "none":
        yield dict(case, fail="none")
    if case["workers"] > 1:
        yield dict(case, workers=max(1, case["workers"] - 1))
    pbd = case["problem"]
    if not pbd.get("conditions") and not pbd.get("forbiddens"):
        for j in range(len(pbd["hps"])):
            if len(pbd["hps"]) > 1:
                yield dict(case, problem=dict(pbd, hps=pbd["hps"][:j] + pbd["hps"][j + 1:]))
    else:
        if pbd.get("forbiddens"):
            yield dict(case, problem=dict(pbd, forbiddens=pbd["forbiddens"][1:]))
    if case["search"] == "CBO":
        for k, dflt in (("design", "random"), ("strategy", "cl_max"), ("acq", "UCB"), ("surrogate", "ET")):
            if case.get(k) != dflt and not (k == "surrogate" and case.get("surrogate") in ("GP", "GBRT", "HGBRT")):
                yield dict(case, **{k: dflt})


# ----------------------------------------------------------------------------------------------- decode stream
def _tb_array(space):
    return np.asarray(space.transformed_bounds, dtype=float).reshape(-1, 2)


def model_rows(m, fid_dec, fid_pw, msp, Zq, lgt):
    pwt = c09.pw_table(m.call(fid_pw, [msp, Zq, lgt]))
    return m.call(fid_dec, [msp, Zq, lgt, pwt])


def check_decode(case):
    from deephyper.skopt.space import Space
    from deephyper.skopt.utils import check_x_in_space

    dims, mode = case["dims"], case["mode"]
    m = model()
    space = Space([c09.make_dim(d) for d in dims])
    eff = dims if mode == "ask" else [dict(d, tr="normalize") for d in dims]
    arith = any(not (d["kind"] == "real" and d["prior"] == "uniform" and d["tr"] == "identity") for d in eff)
    desc = ["mode=%s" % mode, "ndims=%d" % len(dims)] + sorted(set(c09.dim_key(d) for d in eff)) + sorted(set("z=%s" % t for t in case.get("tags", [])))
    res = dict(ok=True, kind="oracle", clause="", sig={"mode": mode}, nontrivial=bool(arith), desc=desc)
    Z = np.asarray(case["Z"], dtype=float)
    if mode == "ask":
        Zc = Z
        if not space.is_categorical:  # Optimizer._tell
            tb = _tb_array(space)
            Zc = np.clip(Z, tb[:, 0], tb[:, 1])
        X = space.inverse_transform(Zc)
    else:  # sampler/*.generate
        transformer = space.get_transformer()
        space.set_transformer("normalize")
        X = space.inverse_transform(Z)
        space.set_transformer(transformer)
    toks = [c09.cat_tokens(d) if d["kind"] == "cat" else None for d in dims]
    msp = [c09.enc_dim(d) for d in dims]
    Xq = [[c09.cell_to_model(d, t, v) for d, t, v in zip(dims, toks, row)] for row in X]
    XqL = [[q(v) for v in r] for r in Xq]
    # ---- the property: every decoded point is a member (model's in_space on the implementation's exact values) ----
    if mode == "ask":
        idok = m.call(F_IDENT, [msp, [[q(fr(v)) for v in row] for row in Z.tolist()]])
    else:
        idok = [True] * len(X)
    per, all_code, wf = m.call(F_CHECK, [msp, XqL])
    if not wf:
        return dict(res, ok=False, kind="corr", clause="generated_space_not_wellformed")
    for i, ((member, cont, code), row) in enumerate(zip(per, X)):
        if idok[i] and not member:
            return dict(res, ok=False, clause="member", sig={"mode": mode, "clause": "member"}, detail=dict(row=repr(row), z=Z[i].tolist()))
        impl_in = row in space
        if impl_in != bool(cont):
            return dict(res, ok=False, kind="corr", clause="contains_vs_model", detail=dict(row=repr(row), impl=impl_in, model=cont))
        try:
            check_x_in_space(list(row), space)
            ic = 0
        except ValueError as e:
            ic = 1 if "within the bounds" in str(e) else 2
        if ic != code:
            return dict(res, ok=False, kind="corr", clause="check_x_vs_model", detail=dict(row=repr(row), impl=ic, model=code))
    # ---- correspondence: the model's decode of the same vectors ----
    lgt = c09.lg_table(eff, [])
    Zq = [[q(fr(v)) for v in row] for row in Z.tolist()]
    mX = model_rows(m, F_ASK if mode == "ask" else F_DES, F_ASK_PW if mode == "ask" else F_DES_PW, msp, Zq, lgt)
    if [len(r) for r in mX] != [len(r) for r in Xq]:
        return dict(res, ok=False, kind="corr", clause="decode_shape", detail=dict(model=[len(r) for r in mX]))
    for i, (mr, ir) in enumerate(zip(mX, Xq)):
        for k, (mv, iv) in enumerate(zip(mr, ir)):
            mv = unq(mv)
            if abs(mv - iv) > decode_tol(eff[k], mv, Z[i]):
                return dict(res, ok=False, kind="corr", clause="decode_value", sig={"dimkey": c09.dim_key(eff[k]), "mode": mode},
                            detail=dict(row=i, col=k, model=float(mv), impl=float(iv), z=Z[i].tolist()))
    # ---- negative membership: perturbed points, Space.__contains__ / check_x_in_space against the model ----
    for row, kind in perturbations(dims, X, case.get("pert", 0)):
        rq = [q(c09.cell_to_model(d, t, v)) for d, t, v in zip(dims, toks, row)] if len(row) <= len(dims) else \
             [q(c09.cell_to_model(d, t, v)) for d, t, v in zip(dims + [dims[-1]] * (len(row) - len(dims)), toks + [toks[-1]] * (len(row) - len(dims)), row)]
        (member, cont, code), = m.call(F_CHECK, [msp, [rq]])[0]
        impl_in = row in space
        if impl_in != bool(cont):
            return dict(res, ok=False, kind="corr", clause="contains_vs_model", detail=dict(row=repr(row), impl=impl_in, model=cont, pert=kind))
        try:
            check_x_in_space(list(row), space)
            ic = 0
        except ValueError as e:
            ic = 1 if "within the bounds" in str(e) else 2
        if ic != code:
            return dict(res, ok=False, kind="corr", clause="check_x_vs_model", detail=dict(row=repr(row), impl=ic, model=code, pert=kind))
        if member and ic != 0:  # C02_tell_accepts on the implementation
            return dict(res, ok=False, clause="tell_rejects_member", detail=dict(row=repr(row)))
    return res


def decode_tol(d, mval, zrow):
    if d["kind"] == "int":
        # x * (high - low) + low (or base ** x) is rounded in binary64 before np.round: for wide ranges the two roundings may fall on
        # different sides of a half (the membership oracle above is exact in every case)
        return Fraction(1) if (d["hi"] - d["lo"]) >= 2 ** 30 else Fraction(0)
    if d["kind"] != "real":
        return Fraction(0)
    t = c09.tol_inv(d, mval)
    if d["prior"] == "uniform" and d["tr"] == "normalize":
        t = max(t, 8 * c09.ulp(max(abs(d["lo"]), abs(d["hi"]))))
    return t


def perturbations(dims, X, k):
    if not X:
        return
    base = list(X[0])
    for j, d in enumerate(dims):
        if d["kind"] == "real":
            for v, kind in ((math.nextafter(d["hi"], math.inf), "real_above"), (math.nextafter(d["lo"], -math.inf), "real_below"), (d["hi"], "real_hi"), (d["lo"], "real_lo")):
                yield base[:j] + [v] + base[j + 1:], kind
        elif d["kind"] == "int":
            for v, kind in ((d["hi"] + 1, "int_above"), (d["lo"] - 1, "int_below"), (d["lo"] + 0.5, "int_fraction"), (d["hi"], "int_hi"), (float(d["lo"]), "int_as_float")):
                yield base[:j] + [v] + base[j + 1:], kind
        else:
            other = "__undeclared__" if d["ck"] == "str" else (max(d["cats"]) + 1 if d["ck"] in ("int", "float") else None)
            if other is not None:
                yield base[:j] + [other] + base[j + 1:], "cat_undeclared"
    if len(base) > 1:
        yield base[:-1], "short_row"
    yield base + [base[-1]], "long_row"


def z_vectors(rng, space_dims, n):
    """transformed vectors for the 'ask' mode: per coordinate in range / on a bound / just outside / far outside (the clip of
    Optimizer._tell has to bring them back); identity-encoded categories get declared categories (the theorem's hypothesis)."""
    from deephyper.skopt.space import Space

    space = Space([c09.make_dim(d) for d in space_dims])
    tb = _tb_array(space)
    allcat = space.is_categorical
    owner = [d for d in space_dims for _ in range(c09._tsize(d))]
    rows, tags = [], set()
    for _ in range(n):
        row = []
        for (lo, hi), d in zip(tb.tolist(), owner):
            if d["kind"] == "cat" and d["tr"] == "identity":
                row.append(float(rng.choice(d["cats"])))
                continue
            c = rng.random()
            if allcat or c < 0.45:
                v, t = lo + (hi - lo) * rng.random(), "in"
            elif c < 0.6:
                v, t = rng.choice([lo, hi]), "bound"
            elif c < 0.75:
                v, t = rng.choice([math.nextafter(lo, -math.inf), math.nextafter(hi, math.inf)]), "ulp_out"
            elif c < 0.9:
                w = (hi - lo) if hi > lo else 1.0
                v, t = rng.choice([lo - 1e-9 * w, hi + 1e-9 * w, lo - 1e-6 * abs(lo), hi + 1e-6 * abs(hi)]), "slightly_out"
            else:
                w = (hi - lo) if hi > lo else 1.0
                v, t = rng.choice([lo - 0.3 * w, hi + 0.3 * w, lo - 10 * w, hi + 10 * w]), "far_out"
            if not math.isfinite(v):
                v, t = lo, "bound"
            tags.add(t)
            row.append(min(max(v, lo), hi) if allcat else v)
        rows.append(row)
    return rows, sorted(tags)


def gen_decode(count):
    def gen(rng, tier):
        k = count if tier != "search" else count // 2
        for i in range(k):
            nd = rng.randint(1, 6) if tier != "search" else rng.randint(1, 2)
            dims = [c09.gen_dim(rng) for _ in range(nd)]
            if i % 7 == 0:  # the shapes the search stack creates: label / onehot / identity categories, identity numerics
                dims = [dict(d, tr=rng.choice(["label", "onehot"]) if d["kind"] == "cat" and d["ck"] in ("str", "bool") else d["tr"]) for d in dims]
            n = rng.choice([1, 2, 5, 12])
            if i % 3 == 2:
                U = [[rng.choice([0.0, 1.0, 0.5, rng.random(), rng.random(), math.nextafter(1.0, 0.0), math.nextafter(0.0, 1.0)]) for _ in dims] for _ in range(n)]
                yield dict(dims=dims, mode="design", Z=U, tags=["unit_cube"], pert=1)
            else:
                Z, tags = z_vectors(rng, dims, n)
                yield dict(dims=dims, mode="ask", Z=Z, tags=tags, pert=1)
    return gen


def shrink_decode(case):
    Z, dims = case["Z"], case["dims"]
    for i in range(len(Z)):
        if len(Z) > 1:
            yield dict(case, Z=Z[:i] + Z[i + 1:])
    if len(dims) > 1:
        start = 0
        for j, d in enumerate(dims):
            w = c09._tsize(d) if case["mode"] == "ask" else 1
            yield dict(case, dims=dims[:j] + dims[j + 1:], Z=[r[:start] + r[start + w:] for r in Z])
            start += w


# ----------------------------------------------------------------------------------------------- designs stream
def check_design(case):
    from deephyper.skopt.space import Space
    from deephyper.skopt.utils import cook_initial_point_generator

    dims = case["dims"]
    m = model()
    space = Space([c09.make_dim(d) for d in dims])
    before = space.get_transformer()
    gen_ = cook_initial_point_generator(case["design"])
    desc = ["design=%s" % case["design"], "ndims=%d" % len(dims), "n=%d" % case["n"]] + sorted(set(c09.dim_key(dict(d, tr="normalize")) for d in dims))
    res = dict(ok=True, kind="oracle", clause="", sig={"design": case["design"]}, nontrivial=True, desc=desc)
    with warnings.catch_warnings():
        warnings.simplefilter("ignore")
        X = gen_.generate(space.dimensions, case["n"], random_state=case["seed"])
    if space.get_transformer() != before:
        return dict(res, ok=False, kind="corr", clause="transformer_not_restored", detail=dict(before=before, after=space.get_transformer()))
    toks = [c09.cat_tokens(d) if d["kind"] == "cat" else None for d in dims]
    msp = [c09.enc_dim(d) for d in dims]
    XqL = [[q(c09.cell_to_model(d, t, v)) for d, t, v in zip(dims, toks, row)] for row in X]
    per, all_code, wf = m.call(F_CHECK, [msp, XqL])
    for (member, cont, code), row in zip(per, X):
        if not member or code != 0 or len(row) != len(dims):
            return dict(res, ok=False, clause="design_point_not_member", sig={"design": case["design"], "clause": "design_point_not_member"},
                        detail=dict(row=repr(row), dims=dims))
    if len(X) > case["n"]:
        return dict(res, ok=False, clause="design_too_many_points", detail=dict(got=len(X), want=case["n"]))
    res["desc"] = desc + ["size=%s" % ("full" if len(X) == case["n"] else "short")]
    return res


def gen_designs(count):
    def gen(rng, tier):
        designs = [d for d in enum_options()["designs"] if d != "random"]
        for i in range(count if tier != "search" else count // 2):
            nd = rng.randint(1, 5)
            dims = [c09.gen_dim(rng) for _ in range(nd)]
            yield dict(dims=dims, design=designs[i % len(designs)], n=rng.choice([1, 2, 3, 5, 8, 10, 16, 17]), seed=rng.randint(0, 2 ** 20))
    return gen


def shrink_design(case):
    dims = case["dims"]
    for j in range(len(dims)):
        if len(dims) > 1:
            yield dict(case, dims=dims[:j] + dims[j + 1:])
    if case["n"] > 1:
        yield dict(case, n=case["n"] // 2)


# ----------------------------------------------------------------------------------------------- branches stream
STRAT = {"cl_min": 0, "cl_mean": 0, "cl_max": 0, "topk": 1, "boltzmann": 2, "qLCB": 3, "qLCBd": 3}


def check_branches(case):
    from threadpoolctl import threadpool_limits

    from deephyper.skopt import Optimizer
    from deephyper.skopt.learning import RandomForestRegressor
    from deephyper.skopt.space import Space

    m = model()
    cs_space = None
    if "problem" in case:  # a conditional space as CBO builds it (random design, no caller's points)
        from deephyper.hpo._problem import convert_to_skopt_space

        cs_space = build_problem(case["problem"]).space
        space0 = convert_to_skopt_space(cs_space, surrogate_model="RF")
        dims = [c09.describe_dim(dm) for dm in space0.dimensions]
    else:
        dims = case["dims"]
    desc = ["surrogate=%s" % case["surrogate"], "design=%s" % case["design"], "ndims=%d" % len(dims), "conditional=%s" % (cs_space is not None),
            "scaler=%s" % case.get("scaler", "auto"), "objectives=%g+-%g" % (case.get("yoff", 0.0), case.get("yscale", 1.0))]
    res = dict(ok=True, kind="oracle", clause="", sig={"surrogate": case["surrogate"]}, nontrivial=False, desc=desc)
    n_canon_checked = 0
    with warnings.catch_warnings(), threadpool_limits(limits=1):
        warnings.simplefilter("ignore")
        space = Space([c09.make_dim(d) for d in dims]) if cs_space is None else space0
        est = "DUMMY" if case["surrogate"] == "DUMMY" else RandomForestRegressor(n_estimators=4, random_state=case["seed"])
        rs = np.random.RandomState(case["seed"])
        user = space.rvs(case["n_user"], random_state=rs) if case["n_user"] else []
        opt = Optimizer(space, base_estimator=est, n_initial_points=case["n_init"], initial_points=user, initial_point_generator=case["design"],
                        acq_func="LCB", acq_func_kwargs={"kappa": 1.96, "xi": 0.001}, acq_optimizer="sampling", acq_optimizer_kwargs={"n_points": 40},
                        random_state=case["seed"], objective_scaler=case.get("scaler", "auto"))
        ddims = [c09.describe_dim(dm) for dm in opt.space.dimensions]
        toks = [c09.cat_tokens(d) if d["kind"] == "cat" else None for d in ddims]
        msp = [c09.enc_dim(d) for d in ddims]

        def rowq(row):
            row = list(row)
            if len(row) != len(ddims):  # a transformed row (pinned topk / boltzmann): plain numbers
                return [q(fr(float(v))) for v in row]
            out = []
            for d, t, v in zip(ddims, toks, row):
                try:
                    out.append(q(c09.cell_to_model(d, t, v)))
                except Exception:
                    out.append(q(Fraction(-1)))
            return out

        def not_canonical(row):
            """conditional space: the point must carry the canonical value of every inactive hyperparameter (exact values; the activity
            flags are ConfigSpace's) - None if it does, else a description"""
            names = opt.space.dimension_names
            try:
                sub = active_names(cs_space, dict(zip(names, row)))
            except Exception as e:
                return "%s: %s" % (type(e).__name__, str(e)[:200])
            active = [n in sub for n in names]
            rq = rowq(row)
            if [unq(a) for a in m.call(F_CANON_ROW, [msp, active, rq])] != [unq(a) for a in rq]:
                return "inactive %s in %r" % ([n for n, a in zip(names, active) if not a], list(row))
            return None

        def state():
            nxt = getattr(opt, "_next_x", None)
            return [int(opt._n_initial_points), [rowq(r) for r in opt._initial_samples], opt.base_estimator_ is None, len(opt.models),
                    [rowq(nxt)] if nxt is not None else [], [[]] if hasattr(opt, "_last_X") else []]

        def obs():
            return [int(opt._n_initial_points), len(opt._initial_samples), len(opt.models), 1 if hasattr(opt, "_last_X") else 0]

        pending, told, seen_branches = [], 0, set()
        for step, op in enumerate(case["ops"]):
            if op[0] == "ask":
                n, strat = op[1], op[2]
                st = state()
                # the implementation's own decode of the cached candidates (library oracle): inverse_transform, then - as the repaired
                # one-shot branches do - deactivate_inactive_dimensions
                dec = [rowq(opt.space.deactivate_inactive_dimensions(list(r))) for r in opt.space.inverse_transform(opt._last_X)] if hasattr(opt, "_last_X") else []
                sig = {"surrogate": case["surrogate"], "strategy": strat, "n": "none" if n is None else "1" if n == 1 else "many"}
                try:
                    ret = opt.ask(n_points=n, strategy=strat)
                except Exception as e:
                    _, br, _ = m.call(F_ACCEPT, [msp, st, dec, [] if n is None else [n], STRAT[strat], []])
                    if BRANCH.get(br) in ("no_model", "bad_n") and isinstance(e, (RuntimeError, ValueError)):
                        continue  # the documented error of that branch
                    clause = "ask_raises:" + type(e).__name__
                    return dict(res, ok=False, clause=clause, sig=dict(sig, clause=clause, why=classify(str(e))), detail=dict(step=step, error=str(e)[:400], branch=BRANCH.get(br)))
                rows = [ret] if n is None else ret
                code, br, post = m.call(F_ACCEPT, [msp, st, dec, [] if n is None else [n], STRAT[strat], [rowq(r) for r in rows]])
                seen_branches.add(BRANCH.get(br, str(br)))
                sig["branch"] = BRANCH.get(br, str(br))
                if code != 0:
                    clause = ACCEPT.get(code, "ask:%d" % code)
                    return dict(res, ok=False, clause=clause, sig=dict(sig, clause=clause), detail=dict(step=step, op=op, returned=repr(rows)[:600], state=repr(st)[:600]))
                if post != obs():
                    return dict(res, ok=False, kind="corr", clause="ask_post_state", sig=dict(sig, clause="ask_post_state"), detail=dict(step=step, op=op, model=post, impl=obs()))
                if cs_space is not None:
                    for r in rows:
                        n_canon_checked += 1
                        why = not_canonical(r)
                        if why:
                            return dict(res, ok=False, clause="ask:inactive_not_canonical", sig=dict(sig, clause="ask:inactive_not_canonical"), detail=dict(step=step, op=op, why=why))
                pending.extend(rows)
            else:
                if not pending:
                    continue
                ys = []
                for x in pending:
                    told += 1
                    fail = (op[1] == "fail_some" and told % 3 == 0) or op[1] == "fail_all"
                    yoff, ysc = case.get("yoff", 0.0), case.get("yscale", 1.0)   # objectives far from 0 / huge / tiny (told values are minimised)
                    ys.append("F" if fail else yoff + ysc * 1.0 if op[1] == "const" else yoff + ysc * float(math.sin(told) + told % 4))
                st = state()
                k_ok = sum(1 for y in ys if y != "F")
                try:
                    opt.tell(pending, ys)
                except Exception as e:
                    clause = "tell_raises:" + type(e).__name__
                    return dict(res, ok=False, clause=clause, sig={"surrogate": case["surrogate"], "clause": clause, "why": classify(str(e)), "after": sorted(seen_branches)[-1] if seen_branches else ""},
                                detail=dict(step=step, error=str(e)[:400], told=repr(pending)[:600]))
                post = m.call(F_TELL_POST, [st, k_ok, True])
                if post != obs():
                    return dict(res, ok=False, kind="corr", clause="tell_post_state", detail=dict(step=step, model=post, impl=obs(), k_ok=k_ok))
                if cs_space is not None and getattr(opt, "_next_x", None) is not None:
                    n_canon_checked += 1
                    why = not_canonical(opt._next_x)  # the point the next ask() hands out
                    if why:
                        return dict(res, ok=False, clause="next_x_not_canonical", sig={"surrogate": case["surrogate"], "clause": "next_x_not_canonical"}, detail=dict(step=step, why=why))
                pending = []
    res["desc"] = desc + ["branch=%s" % b for b in sorted(seen_branches)]
    res["nontrivial"] = len(seen_branches) >= 2
    return res


def gen_branches(count):
    def gen(rng, tier):
        for i in range(count if tier != "search" else count // 2):
            nd = rng.randint(1, 3)
            dims = []
            for _ in range(nd):
                d = c09.gen_dim(rng)
                while max(abs(v) for v in ([d["lo"], d["hi"]] if d["kind"] != "cat" else [c for c in d["cats"] if d["ck"] in ("int", "float")] + [0])) > 1e30:
                    d = c09.gen_dim(rng)  # sklearn trees work in float32
                if d["kind"] == "cat":
                    d = dict(d, tr=rng.choice(["label", "onehot"]) if d["ck"] in ("str", "bool") else rng.choice(["label", "onehot", "identity"]))
                dims.append(d)
            ops = []
            for _ in range(rng.randint(4, 10)):
                c = rng.random()
                if c < 0.62:
                    n = rng.choice([None, 1, 2, 3, 4])
                    ops.append(["ask", n, rng.choice(["cl_min", "cl_max", "cl_mean", "topk", "boltzmann", "qLCB", "qLCBd"])])
                else:
                    ops.append(["tell", rng.choice(["ok", "ok", "fail_some", "fail_all", "const"])])
                    if rng.random() < 0.5:
                        ops.insert(len(ops) - 1, ["ask", rng.choice([2, 3]), rng.choice(["cl_min", "topk", "qLCB"])])
            if i % 4 == 3:  # a conditional space: many fits, every stored / returned point must be canonical
                pbd = gen_conditional_children(rng)[0] if i % 8 == 3 else gen_constrained(rng)
                cops = []
                for _ in range(rng.randint(5, 9)):
                    cops += [["ask", rng.choice([None, 1, 2, 3, 4]), rng.choice(["cl_min", "cl_max", "topk", "boltzmann", "qLCB", "qLCBd"])], ["tell", rng.choice(["ok", "ok", "fail_some"])]]
                yield dict(problem=pbd, surrogate="RF", design="random", n_init=rng.choice([1, 2, 3]), n_user=0, seed=rng.randint(0, 2 ** 20), ops=cops)
                continue
            n_init = rng.choice([0, 1, 2, 3, 5]) if i % 10 == 0 else rng.choice([1, 2, 3, 5])
            if n_init == 0:  # nothing to design: only the random generator copes with 0 points
                yield dict(dims=dims, surrogate="RF", design="random", n_init=0, n_user=0, seed=rng.randint(0, 2 ** 20), ops=ops)
                continue
            mag = dict(zip(("yoff", "yscale"), rng.choice([(0.0, 1.0), (0.0, 1.0), (1000.0, 0.5), (-5000.0, 1.0), (0.0, 1e-9), (0.0, 1e12), (300.0, 0.1), (1e15, 1.0)])),
                       scaler=rng.choice(["auto", "identity", "identity", "minmax"]))
            if i % 2 == 0:   # the one-shot and q strategies on every magnitude
                ops = ops + [["tell", "ok"], ["ask", rng.choice([2, 3, 4]), rng.choice(["boltzmann", "boltzmann", "topk", "qLCB"])], ["tell", rng.choice(["ok", "const"])],
                             ["ask", rng.choice([2, 4]), "boltzmann"]]
            yield dict(dims=dims, surrogate=rng.choice(["DUMMY", "RF", "RF", "RF"]), **mag, design=rng.choice(["random", "random", "sobol", "lhs", "grid", "halton", "hammersly"]),
                       n_init=n_init, n_user=rng.choice([0, 0, 1, 3, 3]) % n_init, seed=rng.randint(0, 2 ** 20), ops=ops)
    return gen


def shrink_branches(case):
    ops = case["ops"]
    for i in range(len(ops)):
        if len(ops) > 1:
            yield dict(case, ops=ops[:i] + ops[i + 1:])
    if "problem" in case:
        return
    dims = case["dims"]
    for j in range(len(dims)):
        if len(dims) > 1:
            yield dict(case, dims=dims[:j] + dims[j + 1:])
    if case["n_user"]:
        yield dict(case, n_user=0)
    if case["design"] != "random":
        yield dict(case, design="random")


# ----------------------------------------------------------------------------------------------- canon stream
HCLASS = {"int": 0, "float": 0, "cat": 1, "ord": 2, "const": 3}


def check_canon(case):
    import deephyper.hpo._random as m_random
    import deephyper.hpo._regevo as m_regevo
    from deephyper.hpo._problem import convert_to_skopt_space

    m = model()
    pb = build_problem(case["problem"])
    cs_space = pb.space
    names = list(cs_space.keys())
    sk = convert_to_skopt_space(cs_space, surrogate_model=case["surrogate"])
    dims = [c09.describe_dim(dm) for dm in sk.dimensions]
    toks = [c09.cat_tokens(d) if d["kind"] == "cat" else None for d in dims]
    msp = [c09.enc_dim(d) for d in dims]
    kinds = {h["name"]: h["kind"] for h in case["problem"]["hps"]}
    res = dict(ok=True, kind="corr", clause="", sig={}, nontrivial=False, desc=["surrogate=%s" % case["surrogate"]])
    if m.call(F_SELTAB, []) != [list(t) for t in sorted(set((k, s) for _, k, s in facts_table()))]:
        return dict(res, ok=False, clause="canon_table_vs_facts", detail=dict(model=m.call(F_SELTAB, []), facts=facts_table()))
    cs_space.seed(case["seed"])
    with warnings.catch_warnings():
        warnings.simplefilter("ignore")
        confs = cs_space.sample_configuration(case["n"])
    confs = confs if isinstance(confs, list) else [confs]
    n_inactive = 0
    for conf in confs:
        act_d = dict(conf)
        active = [n in act_d for n in names]
        n_inactive += active.count(False)
        # a full point: inactive hyperparameters get an arbitrary member value (here: the last choice / the upper bound)
        full = []
        for n, dm in zip(names, sk.dimensions):
            full.append(act_d[n] if n in act_d else (dm.categories[-1] if hasattr(dm, "categories") else dm.high))
        # 1. the CBO path
        impl_row = sk.deactivate_inactive_dimensions(list(full))
        mrow = m.call(F_CANON_ROW, [msp, active, [q(c09.cell_to_model(d, t, v)) for d, t, v in zip(dims, toks, full)]])
        irow = [q(c09.cell_to_model(d, t, v)) for d, t, v in zip(dims, toks, impl_row)]
        if [unq(a) for a in mrow] != [unq(a) for a in irow]:
            return dict(res, ok=False, clause="deactivate_inactive_dimensions", detail=dict(full=repr(full), impl=repr(impl_row), active=active))
        # 2. the RandomSearch / RegularizedEvolution path
        hps = [[HCLASS[kinds[n]], e] for n, e in zip(names, msp)]
        for mod in (m_random, m_regevo):
            sample = dict(act_d)
            for n in names:
                if n not in sample:
                    sample[n] = mod.get_inactive_value_of_hyperparameter(cs_space[n])
            irow2 = [q(c09.cell_to_model(d, t, sample[n])) for d, t, n in zip(dims, toks, names)]
            mrow2 = m.call(F_CANON, [hps, active, [q(c09.cell_to_model(d, t, v)) for d, t, v in zip(dims, toks, full)]])
            if [unq(a) for a in mrow2] != [unq(a) for a in irow2]:
                return dict(res, ok=False, clause="get_inactive_value", detail=dict(sample=repr(sample), active=active, module=mod.__name__))
        # 3. the canonical point is what ConfigSpace itself accepts back, and the oracle agrees
        code, det = judge_config(cs_space, dict(zip(names, [getattr(v, "tolist", lambda v=v: v)() for v in impl_row])))
        if code != 0:
            return dict(res, ok=False, kind="oracle", clause=CLAUSES.get(code, str(code)), detail=dict(row=repr(impl_row), **det))
        sub = active_names(cs_space, dict(zip(names, impl_row)))
        if set(sub) != set(act_d):
            return dict(res, ok=False, clause="activity_changed_by_canonicalisation", detail=dict(before=sorted(act_d), after=sorted(sub)))
    # 4. Space.rvs (the candidates of every model-based step and the random initial points): members, inactive values canonical
    sk.config_space.seed(case["seed"] + 1)
    for row in sk.rvs(case["n"], random_state=case["seed"]):
        cfg = dict(zip(names, [getattr(v, "tolist", lambda v=v: v)() for v in row]))
        code, det = judge_config(cs_space, cfg)
        if code != 0:
            clause = "rvs:" + CLAUSES.get(code, str(code))
            return dict(res, ok=False, kind="oracle", clause=clause, sig={"clause": clause}, detail=dict(row=repr(row), **det))
        active = [n not in det["inactive"] for n in names]
        rq = [q(c09.cell_to_model(d, t, v)) for d, t, v in zip(dims, toks, row)]
        if [unq(a) for a in m.call(F_CANON_ROW, [msp, active, rq])] != [unq(a) for a in rq]:
            return dict(res, ok=False, clause="rvs_not_canonical", detail=dict(row=repr(row), active=active))
    res["nontrivial"] = n_inactive > 0
    res["desc"].append("inactive=%s" % ("0" if n_inactive == 0 else "1+"))
    return res


_FT = None


def facts_table():
    global _FT
    if _FT is None:
        src = open(os.path.join(VERIF, "coq", "theories", "Generated", "Facts_C02.v")).read()
        mm = re.search(r"Definition inactive_table : list \(string \* Z \* Z\) := \[(.*?)\]\.", src, re.S)
        _FT = [(a, int(b), int(c)) for a, b, c in re.findall(r'\("([^"]*)", (\d+), (\d+)\)', mm.group(1))] if mm else []
    return _FT


def gen_canon(count):
    def gen(rng, tier):
        for i in range(count if tier != "search" else count // 2):
            yield dict(problem=gen_constrained(rng), surrogate=rng.choice(["RF", "ET", "DUMMY", "GP"]), seed=rng.randint(0, 2 ** 20), n=rng.choice([3, 8]))
    return gen


def streams(tier):
    th = tier == "thorough"
    return [
        Stream("decode", gen_decode(20000 if th else 1500), check_decode, shrink_decode, timeout=60),
        Stream("designs", gen_designs(3000 if th else 300), check_design, shrink_design, timeout=60),
        Stream("canon", gen_canon(600 if th else 60), check_canon, None, timeout=60),
        Stream("branches", gen_branches(1500 if th else 120), check_branches, shrink_branches, timeout=120),
        Stream("search", gen_search(28), check_search, shrink_search, timeout=240),
    ]
